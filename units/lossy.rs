// Verus unit `lossy` — C10 (and the palette part of C04).
// Executable text below every //@fn / //@item directive is cut verbatim from /repo.
#![allow(unused_imports, dead_code, unused_variables, non_snake_case)]
use vstd::prelude::*;
use crate as anstyle;
use crate as palette;
use crate::RgbColor as Rgb;

verus! {

//@item crates/anstyle/src/color.rs enum AnsiColor
//@item crates/anstyle/src/color.rs struct Ansi256Color
//@item crates/anstyle/src/color.rs struct RgbColor
//@item crates/anstyle/src/color.rs enum Color

//@include spec/lossy.rs

impl RgbColor {
//@fn crates/anstyle/src/color.rs RgbColor::r
//@ret res
//@contract
    ensures res == self.0,
//@end
//@fn crates/anstyle/src/color.rs RgbColor::g
//@ret res
//@contract
    ensures res == self.1,
//@end
//@fn crates/anstyle/src/color.rs RgbColor::b
//@ret res
//@contract
    ensures res == self.2,
//@end
}

impl Ansi256Color {
//@fn crates/anstyle/src/color.rs Ansi256Color::index
//@ret res
//@contract
    ensures res == self.0,
//@end
//@fn crates/anstyle/src/color.rs Ansi256Color::into_ansi
//@ret res
//@contract
    ensures
        self.0 < 16 ==> res == Some(ansi_of(self.0 as int)),
        self.0 >= 16 ==> res.is_none(),
//@end
//@fn crates/anstyle/src/color.rs Ansi256Color::from_ansi
//@ret res
//@contract
    ensures
        res.0 as int == ansi_index(color),
//@end
}

//@item crates/anstyle-lossy/src/palette.rs struct Palette
//@item crates/anstyle-lossy/src/palette.rs type RawPalette

//@item crates/anstyle-lossy/src/lib.rs const XTERM_COLORS

//@fn crates/anstyle-lossy/src/lib.rs distance
//@ret res
//@contract
    ensures res as int == sd(c1, c2),
//@after 1 let b_delta = c1_b - c2_b;
    proof {
        lemma_sq_bound(r_delta as int);
        lemma_sq_bound(g_delta as int);
        lemma_sq_bound(b_delta as int);
        lemma_wmul(2 * 512 + r_sum as int, r_delta as int);
        lemma_wmul(2 * 767 - r_sum as int, b_delta as int);
        assert((4 * g_delta) * g_delta == 4 * (g_delta * g_delta)) by (nonlinear_arith);
        assert((1i32 << 8) == 256i32) by (bit_vector);
        assert((1i32 << 9) == 512i32) by (bit_vector);
    }
//@end

//@fn crates/anstyle-lossy/src/lib.rs find_xterm_match
//@ret res
//@contract
    ensures
        16 <= res < 256,
        first_argmin(XTERM_COLORS@, color, 16, 256, res as int),
//@loop 1
        invariant
            16 <= best_index < index <= 256,
            XTERM_COLORS@.len() == 256,
            best_distance as int == sd(color, XTERM_COLORS@[best_index as int]),
            first_argmin(XTERM_COLORS@, color, 16, index as int, best_index as int),
        decreases 256 - index,
//@end

impl Palette {
//@fn crates/anstyle-lossy/src/palette.rs Palette::get
//@ret res
//@contract
    ensures res == self.0@[ansi_index(color)],
//@end
//@fn crates/anstyle-lossy/src/palette.rs Palette::get_ansi256_ref
//@ret res
//@contract
    requires color.0 < 16,
    ensures *res == self.0@[color.0 as int],
//@end
//@fn crates/anstyle-lossy/src/palette.rs Palette::rgb_from_ansi
//@ret res
//@contract
    ensures res == self.0@[ansi_index(color)],
//@end
//@fn crates/anstyle-lossy/src/palette.rs Palette::rgb_from_index
//@ret res
//@contract
    ensures
        index < 16 ==> res == Some(self.0@[index as int]),
        index >= 16 ==> res.is_none(),
//@end
//@fn crates/anstyle-lossy/src/palette.rs Palette::find_match
//@ret res
//@contract
    ensures
        first_argmin(self.0@, color, 0, 16, ansi_index(res)),
//@loop 1
        invariant
            0 <= best_index < index <= 16,
            self.0@.len() == 16,
            best_distance as int == sd(color, self.0@[best_index as int]),
            first_argmin(self.0@, color, 0, index as int, best_index as int),
        decreases 16 - index,
//@end
}

//@fn crates/anstyle-lossy/src/lib.rs color_to_rgb
//@ret res
//@contract
    ensures
        color matches Color::Rgb(c) ==> res == c,
        color matches Color::Ansi(c) ==> res == palette.0@[ansi_index(c)],
        color matches Color::Ansi256(c) ==> (c.0 < 16 ==> res == palette.0@[c.0 as int]) && (c.0 >= 16 ==> res == XTERM_COLORS@[c.0 as int]),
//@end
//@fn crates/anstyle-lossy/src/lib.rs color_to_xterm
//@ret res
//@contract
    ensures
        color matches Color::Ansi256(c) ==> res == c,
        color matches Color::Ansi(c) ==> res.0 as int == ansi_index(c),
        color matches Color::Rgb(c) ==> 16 <= res.0 && first_argmin(XTERM_COLORS@, c, 16, 256, res.0 as int),
//@end
//@fn crates/anstyle-lossy/src/lib.rs color_to_ansi
//@ret res
//@contract
    ensures
        color matches Color::Ansi(c) ==> res == c,
        color matches Color::Ansi256(c) ==> (c.0 < 16 ==> res == ansi_of(c.0 as int))
            && (c.0 >= 16 ==> first_argmin(palette.0@, XTERM_COLORS@[c.0 as int], 0, 16, ansi_index(res))),
        color matches Color::Rgb(c) ==> first_argmin(palette.0@, c, 0, 16, ansi_index(res)),
//@end
//@fn crates/anstyle-lossy/src/lib.rs ansi_to_rgb
//@ret res
//@contract
    ensures res == palette.0@[ansi_index(color)],
//@end
//@fn crates/anstyle-lossy/src/lib.rs xterm_to_rgb
//@ret res
//@contract
    ensures
        color.0 < 16 ==> res == palette.0@[color.0 as int],
        color.0 >= 16 ==> res == XTERM_COLORS@[color.0 as int],
//@end
//@fn crates/anstyle-lossy/src/lib.rs xterm_to_ansi
//@ret res
//@contract
    ensures
        color.0 < 16 ==> res == ansi_of(color.0 as int),
        color.0 >= 16 ==> first_argmin(palette.0@, XTERM_COLORS@[color.0 as int], 0, 16, ansi_index(res)),
//@end
//@fn crates/anstyle-lossy/src/lib.rs rgb_to_ansi
//@ret res
//@contract
    ensures first_argmin(palette.0@, color, 0, 16, ansi_index(res)),
//@end
//@fn crates/anstyle-lossy/src/lib.rs rgb_to_xterm
//@ret res
//@contract
    ensures 16 <= res.0, first_argmin(XTERM_COLORS@, color, 16, 256, res.0 as int),
//@end

// ---- property-level corollaries (spec level, from the contracts' predicates) ----

// exact entry maps to its lowest index: distance 0 <=> equal colours
proof fn lemma_exact_is_lowest(s: Seq<RgbColor>, c: RgbColor, lo: int, hi: int, i: int, k: int)
    requires first_argmin(s, c, lo, hi, i), lo <= k < hi, s[k] == c,
    ensures s[i] == c, i <= k,
{
    lemma_sd_zero_iff(c, s[k]);
    lemma_sd_zero_iff(c, s[i]);
    lemma_sd_nonneg(c, s[i]);
}

} // verus!
fn main() {}
