// Verus unit `strip_fold` — spec-level composition lemmas for C01 / C03 / C06 (no repository
// code): what the one-call scan contract implies for whole inputs, chunkings and replays.
#![allow(unused_imports, dead_code, unused_variables, non_snake_case)]
use vstd::prelude::*;

verus! {

//@item crates/anstyle-parse/src/state/definitions.rs enum State
//@item crates/anstyle-parse/src/state/definitions.rs enum Action
//@include spec/vt.rs opaque=vt
//@include spec/strip.rs
//@include spec/strip_run.rs
//@include spec/strip_fold.rs

} // verus!
fn main() {}
