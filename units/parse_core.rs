// Verus unit `parse_core` — C02 / C04 / C20: Params data structure and the parser's one-step refinement.
// Executable text below every //@fn / //@item directive is cut verbatim from /repo.
#![allow(unused_imports, dead_code, unused_variables, unused_mut, unused_assignments, non_snake_case)]
use vstd::prelude::*;
extern crate alloc;

verus! {

//@features utf8
//@item crates/anstyle-parse/src/params.rs const MAX_PARAMS
//@item crates/anstyle-parse/src/params.rs struct Params nostructural
//@item crates/anstyle-parse/src/params.rs struct ParamsIter nostructural

//@include spec/params.rs

impl Params {
    /// where the open (not yet closed) parameter starts
    spec fn start(&self) -> int { self.len as int - self.current_subparams as int }

    spec fn wf(&self) -> bool {
        &&& self.len <= MAX_PARAMS
        &&& self.current_subparams as int <= self.len
        &&& chain_to(self.subparams@, 0, self.start())
        &&& (self.current_subparams > 0 ==> self.subparams@[self.start()] == self.current_subparams)
    }

    /// closed parameters, each with its sub-parameters
    spec fn closed(&self) -> Seq<Seq<u16>> {
        chain_view(self.subparams@, self.params@, 0, self.start())
    }

    /// sub-parameters collected so far for the parameter that is still open
    spec fn open(&self) -> Seq<u16> {
        self.params@.subrange(self.start(), self.len as int)
    }

    /// what an iteration yields: the closed parameters, then the open one if it has sub-parameters
    spec fn view(&self) -> Seq<Seq<u16>> {
        if self.current_subparams > 0 { self.closed().push(self.open()) } else { self.closed() }
    }

    /// the value budget: closed parameters plus open sub-parameters fill `len` slots
    proof fn lemma_len(&self)
        requires self.wf(),
        ensures m_count(self.closed()) + self.open().len() == self.len,
    {
        lemma_chain_le(self.subparams@, 0, self.start());
        lemma_view_count(self.subparams@, self.params@, 0, self.start());
    }

    proof fn lemma_view_is_chain(&self)
        requires self.wf(),
        ensures
            chain_to(self.subparams@, 0, self.len as int),
            self.view() == chain_view(self.subparams@, self.params@, 0, self.len as int),
    {
        let st = self.start();
        reveal_with_fuel(chain_to, 3);
        reveal_with_fuel(chain_view, 3);
        lemma_chain_le(self.subparams@, 0, st);
        if self.current_subparams > 0 {
            assert(chain_to(self.subparams@, st, self.len as int));
            lemma_chain_append(self.subparams@, 0, st, self.len as int);
            lemma_view_append(self.subparams@, self.params@, 0, st, self.len as int);
            assert(chain_view(self.subparams@, self.params@, st, self.len as int) =~= seq![self.open()]);
            assert(self.view() =~= chain_view(self.subparams@, self.params@, 0, self.len as int));
        }
    }

//@fn crates/anstyle-parse/src/params.rs Params::len
//@ret r
//@contract
    ensures r == self.len,
//@end
//@fn crates/anstyle-parse/src/params.rs Params::is_empty
//@ret r
//@contract
    ensures r == (self.len == 0),
//@end
//@fn crates/anstyle-parse/src/params.rs Params::is_full
//@ret r
//@contract
    ensures r == (self.len == MAX_PARAMS),
//@end
//@fn crates/anstyle-parse/src/params.rs Params::clear
//@contract
    ensures
        final(self).wf(),
        final(self).len == 0,
        final(self).closed() == Seq::<Seq<u16>>::empty(),
        final(self).open() == Seq::<u16>::empty(),
//@after 1 self.len = 0;
        proof {
            assert(final(self).open() =~= Seq::<u16>::empty());
        }
//@end
//@fn crates/anstyle-parse/src/params.rs Params::push
//@contract
    requires
        old(self).wf(),
        old(self).len < MAX_PARAMS,
    ensures
        final(self).wf(),
        final(self).len == old(self).len + 1,
        final(self).closed() == old(self).closed().push(old(self).open().push(item)),
        final(self).open() == Seq::<u16>::empty(),
//@after 1 self.len += 1;
        proof {
            let st = old(self).start();
            let os = old(self).subparams@;
            let ns = self.subparams@;
            let ov = old(self).params@;
            let nv = self.params@;
            lemma_chain_frame(os, ns, 0, st);
            reveal_with_fuel(chain_to, 3);
            assert(chain_to(ns, st, self.len as int));
            lemma_chain_append(ns, 0, st, self.len as int);
            // view: closed prefix unchanged, plus the newly closed parameter
            lemma_chain_le(os, 0, st);
            lemma_view_frame(os, ov, ns, nv, 0, st);
            lemma_view_append(ns, nv, 0, st, self.len as int);
            reveal_with_fuel(chain_view, 3);
            assert(nv.subrange(st, self.len as int) =~= old(self).open().push(item));
            assert(chain_view(ns, nv, st, self.len as int) =~= seq![old(self).open().push(item)]);
            assert(final(self).closed() =~= old(self).closed().push(old(self).open().push(item)));
            assert(final(self).open() =~= Seq::<u16>::empty());
        }
//@end
//@fn crates/anstyle-parse/src/params.rs Params::extend
//@contract
    requires
        old(self).wf(),
        old(self).len < MAX_PARAMS,
    ensures
        final(self).wf(),
        final(self).len == old(self).len + 1,
        final(self).closed() == old(self).closed(),
        final(self).open() == old(self).open().push(item),
//@after 1 self.len += 1;
        proof {
            let st = old(self).start();
            lemma_chain_frame(old(self).subparams@, self.subparams@, 0, st);
            lemma_chain_le(old(self).subparams@, 0, st);
            lemma_view_frame(old(self).subparams@, old(self).params@, self.subparams@, self.params@, 0, st);
            assert(final(self).open() =~= old(self).open().push(item));
        }
//@end
}

impl<'a> ParamsIter<'a> {
    spec fn inv(&self) -> bool {
        &&& self.params.wf()
        &&& (self.index >= self.params.len || chain_to(self.params.subparams@, self.index as int, self.params.len as int))
    }

    /// what is still to be yielded
    spec fn remaining(&self) -> Seq<Seq<u16>> {
        chain_view(self.params.subparams@, self.params.params@, self.index as int, self.params.len as int)
    }

//@fn crates/anstyle-parse/src/params.rs ParamsIter::new
//@ret r
//@contract
    requires params.wf(),
    ensures r.inv(), r.remaining() == params.view(), r.params == params,
//@before 1 Self { params, index: 0 }
        proof { params.lemma_view_is_chain(); }
//@end

//@fn crates/anstyle-parse/src/params.rs ParamsIter::next impl="Iterator for ParamsIter" subst="Self::Item=>&'a [u16]"
//@ret r
//@contract
    requires old(self).inv(),
    ensures
        final(self).inv(),
        final(self).params == old(self).params,
        r.is_none() <==> old(self).remaining().len() == 0,
        r matches Some(p) ==> p@ == old(self).remaining()[0] && final(self).remaining() == old(self).remaining().drop_first()
            && p@.len() >= 1,
//@after 1 let num_subparams = self.params.subparams[self.index];
        proof {
            lemma_chain_le(self.params.subparams@, self.index as int + num_subparams as int, self.params.len as int);
            reveal_with_fuel(chain_view, 2);
        }
//@after 1 self.index += num_subparams as usize;
        proof {
            assert(old(self).remaining().drop_first() =~= final(self).remaining());
        }
//@end
}

// ------------------------------------------------------------------ parser

//@item crates/anstyle-parse/src/state/definitions.rs enum State
//@item crates/anstyle-parse/src/state/definitions.rs enum Action
//@include spec/vt.rs opaque=vt

//@item crates/anstyle-parse/src/lib.rs const MAX_INTERMEDIATES
//@item crates/anstyle-parse/src/lib.rs const MAX_OSC_PARAMS
//@if core
//@item crates/anstyle-parse/src/lib.rs const MAX_OSC_RAW

// arrayvec::ArrayVec (third-party, `core` feature): stand-in with the documented contract of the
// four methods the parser uses.  ASSUMED (arrayvec is not verified here): push requires !is_full.
#[verifier::external_body]
#[verifier::reject_recursive_types(T)]
struct ArrayVec<T, const CAP: usize> {
    _p: core::marker::PhantomData<T>,
}

impl<T, const CAP: usize> ArrayVec<T, CAP> {
    uninterp spec fn view(&self) -> Seq<T>;

    #[verifier::external_body]
    fn len(&self) -> (r: usize)
        ensures r == self.view().len(), r <= CAP,
    { unimplemented!() }

    #[verifier::external_body]
    fn is_full(&self) -> (r: bool)
        ensures r == (self.view().len() == CAP), self.view().len() <= CAP,
    { unimplemented!() }

    #[verifier::external_body]
    fn push(&mut self, element: T)
        requires old(self).view().len() < CAP,
        ensures final(self).view() == old(self).view().push(element),
    { unimplemented!() }

    #[verifier::external_body]
    fn clear(&mut self)
        ensures final(self).view() == Seq::<T>::empty(),
    { unimplemented!() }
}

spec fn osc_cap() -> Option<int> { Some(MAX_OSC_RAW as int) }
//@else
spec fn osc_cap() -> Option<int> { None }
//@endif
//@item crates/anstyle-parse/src/lib.rs struct Parser noderive nodefault

// Interface traits replaced by their contract (rule E6).
// CharAccumulator: caller-chosen decoder; the model is parametric in its (deterministic) step.
trait CharAccumulator: Sized {
    spec fn spec_add(&self, byte: u8) -> (Self, Option<char>);

    fn add(&mut self, byte: u8) -> (r: Option<char>)
        ensures (*final(self), r) == old(self).spec_add(byte);
}

//@include spec/parser_model.rs opaque=model_action

spec fn slices_view(p: Seq<&[u8]>) -> Seq<Seq<u8>> {
    Seq::new(p.len(), |i: int| p[i]@)
}

// Perform: caller-supplied callbacks; each appends exactly one event to a ghost log.
trait Perform {
    spec fn log(&self) -> Seq<Event>;

    fn print(&mut self, c: char)
        ensures final(self).log() == old(self).log().push(Event::Print(c));
    fn execute(&mut self, byte: u8)
        ensures final(self).log() == old(self).log().push(Event::Execute(byte));
    fn hook(&mut self, params: &Params, intermediates: &[u8], ignore: bool, action: u8)
        requires params.wf(),
        ensures final(self).log() == old(self).log().push(Event::Hook(params.view(), intermediates@, ignore, action));
    fn put(&mut self, byte: u8)
        ensures final(self).log() == old(self).log().push(Event::Put(byte));
    fn unhook(&mut self)
        ensures final(self).log() == old(self).log().push(Event::Unhook);
    fn osc_dispatch(&mut self, params: &[&[u8]], bell_terminated: bool)
        ensures final(self).log() == old(self).log().push(Event::Osc(slices_view(params@), bell_terminated));
    fn csi_dispatch(&mut self, params: &Params, intermediates: &[u8], ignore: bool, action: u8)
        requires params.wf(),
        ensures final(self).log() == old(self).log().push(Event::Csi(params.view(), intermediates@, ignore, action));
    fn esc_dispatch(&mut self, intermediates: &[u8], ignore: bool, byte: u8)
        ensures final(self).log() == old(self).log().push(Event::Esc(intermediates@, ignore, byte));
}

// anstyle_parse::state::state_change: table lookup + transmute (rule E7);
// obligation kani:anstyle-parse::vt_table_state_change_eq_spec (complete).
//@fn crates/anstyle-parse/src/state/mod.rs state_change unconst
//@ret r
//@contract
    ensures r == vt(state, byte),
//@external_body
//@end

proof fn lemma_vt_param(s: State, b: u8)
    ensures
        vt(s, b).1 == Action::Param ==> 0x30 <= b <= 0x3b,
        s != State::Anywhere ==> (vt(s, b).0 == State::Anywhere || vt(s, b).0 != s || true),
{
    reveal(vt);
}

spec fn bounds_of(a: Seq<(usize, usize)>, n: int) -> Seq<(int, int)> {
    Seq::new(n as nat, |i: int| (a[i].0 as int, a[i].1 as int))
}

impl<C> Parser<C>
where
    C: CharAccumulator,
{
    #[verifier::opaque]
    spec fn osc_wf(&self) -> bool {
        &&& self.osc_num_params <= MAX_OSC_PARAMS
        &&& forall|i: int| 0 <= i < self.osc_num_params ==> (#[trigger] self.osc_params@[i]).0 <= self.osc_params@[i].1
                && self.osc_params@[i].1 <= self.osc_raw@.len()
                && (i == 0 ==> self.osc_params@[i].0 == 0)
                && (i > 0 ==> self.osc_params@[i].0 == self.osc_params@[i - 1].1)
    }

    #[verifier::opaque]
    spec fn wf(&self) -> bool {
        &&& self.state != State::Anywhere
        &&& self.params.wf()
        &&& self.intermediate_idx <= MAX_INTERMEDIATES
        &&& self.osc_wf()
    }

    #[verifier::opaque]
    spec fn abs(&self) -> MP<C> {
        MP {
            st: self.state,
            inter: self.intermediates@.subrange(0, self.intermediate_idx as int),
            ignoring: self.ignoring,
            closed: self.params.closed(),
            open: self.params.open(),
            param: self.param,
            osc_raw: self.osc_raw@,
            osc_bounds: bounds_of(self.osc_params@, self.osc_num_params as int),
            utf8: self.utf8_parser,
        }
    }

    proof fn lemma_abs_st(&self)
        ensures self.abs().st == self.state, self.wf() ==> self.state != State::Anywhere,
    {
        reveal(Parser::abs);
        reveal(Parser::wf);
    }

    /// assigning the state field changes exactly `st` of the abstraction
    proof fn lemma_set_state(&self, other: &Self, ns: State)
        requires
            self.wf(), ns != State::Anywhere,
            other.state == ns,
            other.intermediates == self.intermediates, other.intermediate_idx == self.intermediate_idx,
            other.params == self.params, other.param == self.param, other.osc_raw == self.osc_raw,
            other.osc_params == self.osc_params, other.osc_num_params == self.osc_num_params,
            other.ignoring == self.ignoring, other.utf8_parser == self.utf8_parser,
        ensures
            other.wf(),
            other.abs() == (MP { st: ns, ..self.abs() }),
    {
        reveal(Parser::abs);
        reveal(Parser::osc_wf);
        reveal(Parser::wf);
        lemma_mp_ext(other.abs(), MP { st: ns, ..self.abs() });
    }

//@fn crates/anstyle-parse/src/lib.rs Parser::params
//@ret r
//@contract
    ensures r == &self.params,
//@end
//@fn crates/anstyle-parse/src/lib.rs Parser::intermediates
//@ret r
//@contract
    requires self.intermediate_idx <= MAX_INTERMEDIATES,
    ensures r@ == self.intermediates@.subrange(0, self.intermediate_idx as int),
//@end

// osc_dispatch builds `&[&[u8]]` through MaybeUninit + raw pointer casts (rule E7);
// obligation kani:anstyle-parse::parse_osc_dispatch_slices (memory safety and the slices, bounded payload).
//@fn crates/anstyle-parse/src/lib.rs Parser::osc_dispatch
//@contract
    requires self.osc_wf(),
    ensures final(performer).log() == old(performer).log().push(Event::Osc(m_osc_view(self.abs()), byte == 0x07)),
//@external_body
//@end

//@fn crates/anstyle-parse/src/lib.rs Parser::process_utf8
//@contract
    requires old(self).wf(),
    ensures
        final(self).wf(),
        final(self).abs() == m_utf8(old(self).abs(), byte).0,
        final(performer).log() == old(performer).log() + m_utf8(old(self).abs(), byte).1,
//@before 1 if let Some(c) = self.utf8_parser.add(byte) {
        let ghost log0 = performer.log();
        proof {
            reveal(Parser::abs);
            reveal(Parser::osc_wf);
            reveal(Parser::wf);
            assert(log0 + Seq::<Event>::empty() =~= log0);
            assert(forall|e: Event| #[trigger] log0.push(e) =~= log0 + seq![e]);
        }
//@after 1 self.state = State::Ground;
            proof { lemma_mp_ext(self.abs(), m_utf8(old(self).abs(), byte).0); }
//@end

#[verifier::rlimit(100)]
//@fn crates/anstyle-parse/src/lib.rs Parser::perform_action
//@contract
    requires
        old(self).wf(),
        action == Action::Param ==> 0x30 <= byte <= 0x3b,
    ensures
        final(self).wf(),
        final(self).abs() == model_action(old(self).abs(), action, byte, osc_cap()).0,
        final(performer).log() == old(performer).log() + model_action(old(self).abs(), action, byte, osc_cap()).1,
//@before 1 match action {
        let ghost m0 = self.abs();
        let ghost log0 = performer.log();
        proof {
            reveal(model_action);
            reveal(Parser::abs);
            reveal(Parser::osc_wf);
            reveal(Parser::wf);
            self.params.lemma_len();
            assert(m_len(m0) == self.params.len);
            assert(forall|e: Event| #[trigger] log0.push(e) =~= log0 + seq![e]);
            assert(log0 + Seq::<Event>::empty() =~= log0);
        }
//@after 1 performer.hook(self.params(), self.intermediates(), self.ignoring, byte);
                proof {
                    assert(self.params.open().len() == self.params.current_subparams);
                    lemma_mp_ext(self.abs(), model_action(m0, Action::Hook, byte, osc_cap()).0);
                }
//@after 1 performer.csi_dispatch(self.params(), self.intermediates(), self.ignoring, byte);
                proof {
                    assert(self.params.open().len() == self.params.current_subparams);
                    lemma_mp_ext(self.abs(), model_action(m0, Action::CsiDispatch, byte, osc_cap()).0);
                }
//@after 1 self.osc_num_params = 0;
                proof { lemma_mp_ext(self.abs(), model_action(m0, Action::OscStart, byte, osc_cap()).0); }
//@after 1 self.osc_num_params += 1;
                    proof { lemma_mp_ext(self.abs(), model_action(m0, Action::OscPut, byte, osc_cap()).0); }
//@after 1 self.osc_raw.push(byte);
                    proof { lemma_mp_ext(self.abs(), model_action(m0, Action::OscPut, byte, osc_cap()).0); }
//@before 1 self.osc_dispatch(performer, byte);
                proof {
                    lemma_mp_ext(self.abs(), model_action(m0, Action::OscEnd, byte, osc_cap()).0);
                }
//@after 1 self.intermediate_idx += 1;
                    proof { lemma_mp_ext(self.abs(), model_action(m0, Action::Collect, byte, osc_cap()).0); }
//@after 1 self.param = 0;
                    proof { lemma_mp_ext(self.abs(), model_action(m0, Action::Param, byte, osc_cap()).0); }
//@after 2 self.param = 0;
                    proof { lemma_mp_ext(self.abs(), model_action(m0, Action::Param, byte, osc_cap()).0); }
//@after 1 self.param = self.param.saturating_add((byte - b'0') as u16);
                    proof { lemma_mp_ext(self.abs(), model_action(m0, Action::Param, byte, osc_cap()).0); }
//@after 1 self.params.clear();
                proof { lemma_mp_ext(self.abs(), model_action(m0, Action::Clear, byte, osc_cap()).0); }
//@end

#[verifier::rlimit(150)]
//@fn crates/anstyle-parse/src/lib.rs Parser::perform_state_change
//@contract
    requires
        old(self).wf(),
        action == Action::Param ==> 0x30 <= byte <= 0x3b,
    ensures
        final(self).wf(),
        state == State::Anywhere ==> final(self).abs() == model_action(old(self).abs(), action, byte, osc_cap()).0
            && final(performer).log() == old(performer).log() + model_action(old(self).abs(), action, byte, osc_cap()).1,
        state != State::Anywhere ==> final(self).abs() == model_transition(old(self).abs(), state, action, byte, osc_cap()).0
            && final(performer).log() == old(performer).log() + model_transition(old(self).abs(), state, action, byte, osc_cap()).1,
//@before 1 match state {
        let ghost m0 = self.abs();
        let ghost log0 = performer.log();
        proof { assert(log0 + Seq::<Event>::empty() =~= log0); self.lemma_abs_st(); }
//@before 1 match action {
                let ghost r1 = m_exit(m0, byte, osc_cap());
                proof {
                    assert(Seq::<Event>::empty() + model_action(m0, Action::Unhook, byte, osc_cap()).1 =~= model_action(m0, Action::Unhook, byte, osc_cap()).1);
                    assert(Seq::<Event>::empty() + model_action(m0, Action::OscEnd, byte, osc_cap()).1 =~= model_action(m0, Action::OscEnd, byte, osc_cap()).1);
                    assert(self.abs() == r1.0);
                    assert(performer.log() == log0 + r1.1);
                }
//@before 2 match state {
                let ghost r2 = m_trans(r1, action, byte, osc_cap());
                proof {
                    assert((log0 + r1.1) + model_action(r1.0, action, byte, osc_cap()).1 =~= log0 + (r1.1 + model_action(r1.0, action, byte, osc_cap()).1));
                    assert(self.abs() == r2.0);
                    assert(performer.log() == log0 + r2.1);
                }
//@before 1 self.state = state;
                let ghost r3 = m_entry(r2, state, byte, osc_cap());
                proof {
                    assert((log0 + r2.1) + model_action(r2.0, Action::Clear, byte, osc_cap()).1 =~= log0 + (r2.1 + model_action(r2.0, Action::Clear, byte, osc_cap()).1));
                    assert((log0 + r2.1) + model_action(r2.0, Action::Hook, byte, osc_cap()).1 =~= log0 + (r2.1 + model_action(r2.0, Action::Hook, byte, osc_cap()).1));
                    assert((log0 + r2.1) + model_action(r2.0, Action::OscStart, byte, osc_cap()).1 =~= log0 + (r2.1 + model_action(r2.0, Action::OscStart, byte, osc_cap()).1));
                    assert(self.abs() == r3.0);
                    assert(performer.log() == log0 + r3.1);
                }
//@before 1 self.state = state;
                let ghost pre = *self;
//@after 1 self.state = state;
                proof {
                    pre.lemma_set_state(self, state);
                }
//@end

//@fn crates/anstyle-parse/src/lib.rs Parser::advance
//@contract
    requires
        old(self).wf(),
    ensures
        final(self).wf(),
        final(self).abs() == model_step(old(self).abs(), byte, osc_cap()).0,
        final(performer).log() == old(performer).log() + model_step(old(self).abs(), byte, osc_cap()).1,
//@before 1 if let State::Utf8 = self.state {
        proof { self.lemma_abs_st(); }
//@before 1 let (state, action) = state_change(self.state, byte);
        proof { lemma_vt_param(self.state, byte); }
//@end
}

// ---- L-stream: a whole byte stream (any length) yields exactly the model's event sequence ----

spec fn model_run<C: CharAccumulator>(m: MP<C>, bytes: Seq<u8>, i: int) -> (MP<C>, Seq<Event>)
    decreases i
{
    if i <= 0 || i > bytes.len() { (m, Seq::empty()) }
    else {
        let p = model_run(m, bytes, i - 1);
        let t = model_step(p.0, bytes[i - 1], osc_cap());
        (t.0, p.1 + t.1)
    }
}

/// the caller's loop (this function is verification-side code, not repository code): feeding a
/// slice byte by byte through the real `advance` produces the model run of that slice
fn drive<C: CharAccumulator, P: Perform>(parser: &mut Parser<C>, performer: &mut P, bytes: &[u8])
    requires old(parser).wf(),
    ensures
        final(parser).wf(),
        final(parser).abs() == model_run(old(parser).abs(), bytes@, bytes@.len() as int).0,
        final(performer).log() == old(performer).log() + model_run(old(parser).abs(), bytes@, bytes@.len() as int).1,
{
    let ghost m0 = parser.abs();
    let ghost log0 = performer.log();
    let mut i: usize = 0;
    proof { assert(log0 + Seq::<Event>::empty() =~= log0); }
    while i < bytes.len()
        invariant
            i <= bytes.len(),
            parser.wf(),
            parser.abs() == model_run(m0, bytes@, i as int).0,
            performer.log() == log0 + model_run(m0, bytes@, i as int).1,
        decreases bytes.len() - i
    {
        let ghost before = model_run(m0, bytes@, i as int);
        parser.advance(performer, bytes[i]);
        proof {
            let t = model_step(before.0, bytes@[i as int], osc_cap());
            assert((log0 + before.1) + t.1 =~= log0 + (before.1 + t.1));
        }
        i += 1;
    }
}

// ---- L-cancel: after CAN or SUB the rest of the stream is parsed as by a fresh parser ----

/// which bookkeeping can still influence a future callback, per state: parameters and
/// intermediates while a control sequence is being collected, the OSC buffer inside an OSC string,
/// nothing in Ground and in the "ignore"/string states (every way out of them clears first)
spec fn collecting(s: State) -> bool {
    s == State::Escape || s == State::EscapeIntermediate || s == State::CsiEntry || s == State::CsiParam
        || s == State::CsiIntermediate || s == State::DcsEntry || s == State::DcsParam || s == State::DcsIntermediate
}

spec fn same_future<C>(a: MP<C>, b: MP<C>) -> bool {
    &&& a.st == b.st
    &&& a.utf8 == b.utf8
    &&& (collecting(a.st) ==> a.inter == b.inter && a.ignoring == b.ignoring && a.closed == b.closed && a.open == b.open && a.param == b.param)
    &&& (a.st == State::OscString ==> a.osc_raw == b.osc_raw && a.osc_bounds == b.osc_bounds)
}

/// `same_future` is a bisimulation: equal events now, related states afterwards (one lemma per state keeps the case analysis small)
proof fn lemma_sf_CsiEntry<C: CharAccumulator>(a: MP<C>, b: MP<C>, byte: u8)
    requires same_future(a, b), a.st == State::CsiEntry,
    ensures
        model_step(a, byte, osc_cap()).1 == model_step(b, byte, osc_cap()).1,
        same_future(model_step(a, byte, osc_cap()).0, model_step(b, byte, osc_cap()).0),
{
    reveal(vt);
    reveal(model_action);
}

proof fn lemma_sf_CsiIgnore<C: CharAccumulator>(a: MP<C>, b: MP<C>, byte: u8)
    requires same_future(a, b), a.st == State::CsiIgnore,
    ensures
        model_step(a, byte, osc_cap()).1 == model_step(b, byte, osc_cap()).1,
        same_future(model_step(a, byte, osc_cap()).0, model_step(b, byte, osc_cap()).0),
{
    reveal(vt);
    reveal(model_action);
}

proof fn lemma_sf_CsiIntermediate<C: CharAccumulator>(a: MP<C>, b: MP<C>, byte: u8)
    requires same_future(a, b), a.st == State::CsiIntermediate,
    ensures
        model_step(a, byte, osc_cap()).1 == model_step(b, byte, osc_cap()).1,
        same_future(model_step(a, byte, osc_cap()).0, model_step(b, byte, osc_cap()).0),
{
    reveal(vt);
    reveal(model_action);
}

proof fn lemma_sf_CsiParam<C: CharAccumulator>(a: MP<C>, b: MP<C>, byte: u8)
    requires same_future(a, b), a.st == State::CsiParam,
    ensures
        model_step(a, byte, osc_cap()).1 == model_step(b, byte, osc_cap()).1,
        same_future(model_step(a, byte, osc_cap()).0, model_step(b, byte, osc_cap()).0),
{
    reveal(vt);
    reveal(model_action);
}

proof fn lemma_sf_DcsEntry<C: CharAccumulator>(a: MP<C>, b: MP<C>, byte: u8)
    requires same_future(a, b), a.st == State::DcsEntry,
    ensures
        model_step(a, byte, osc_cap()).1 == model_step(b, byte, osc_cap()).1,
        same_future(model_step(a, byte, osc_cap()).0, model_step(b, byte, osc_cap()).0),
{
    reveal(vt);
    reveal(model_action);
}

proof fn lemma_sf_DcsIgnore<C: CharAccumulator>(a: MP<C>, b: MP<C>, byte: u8)
    requires same_future(a, b), a.st == State::DcsIgnore,
    ensures
        model_step(a, byte, osc_cap()).1 == model_step(b, byte, osc_cap()).1,
        same_future(model_step(a, byte, osc_cap()).0, model_step(b, byte, osc_cap()).0),
{
    reveal(vt);
    reveal(model_action);
}

proof fn lemma_sf_DcsIntermediate<C: CharAccumulator>(a: MP<C>, b: MP<C>, byte: u8)
    requires same_future(a, b), a.st == State::DcsIntermediate,
    ensures
        model_step(a, byte, osc_cap()).1 == model_step(b, byte, osc_cap()).1,
        same_future(model_step(a, byte, osc_cap()).0, model_step(b, byte, osc_cap()).0),
{
    reveal(vt);
    reveal(model_action);
}

proof fn lemma_sf_DcsParam<C: CharAccumulator>(a: MP<C>, b: MP<C>, byte: u8)
    requires same_future(a, b), a.st == State::DcsParam,
    ensures
        model_step(a, byte, osc_cap()).1 == model_step(b, byte, osc_cap()).1,
        same_future(model_step(a, byte, osc_cap()).0, model_step(b, byte, osc_cap()).0),
{
    reveal(vt);
    reveal(model_action);
}

proof fn lemma_sf_DcsPassthrough<C: CharAccumulator>(a: MP<C>, b: MP<C>, byte: u8)
    requires same_future(a, b), a.st == State::DcsPassthrough,
    ensures
        model_step(a, byte, osc_cap()).1 == model_step(b, byte, osc_cap()).1,
        same_future(model_step(a, byte, osc_cap()).0, model_step(b, byte, osc_cap()).0),
{
    reveal(vt);
    reveal(model_action);
}

proof fn lemma_sf_Escape<C: CharAccumulator>(a: MP<C>, b: MP<C>, byte: u8)
    requires same_future(a, b), a.st == State::Escape,
    ensures
        model_step(a, byte, osc_cap()).1 == model_step(b, byte, osc_cap()).1,
        same_future(model_step(a, byte, osc_cap()).0, model_step(b, byte, osc_cap()).0),
{
    reveal(vt);
    reveal(model_action);
}

proof fn lemma_sf_EscapeIntermediate<C: CharAccumulator>(a: MP<C>, b: MP<C>, byte: u8)
    requires same_future(a, b), a.st == State::EscapeIntermediate,
    ensures
        model_step(a, byte, osc_cap()).1 == model_step(b, byte, osc_cap()).1,
        same_future(model_step(a, byte, osc_cap()).0, model_step(b, byte, osc_cap()).0),
{
    reveal(vt);
    reveal(model_action);
}

proof fn lemma_sf_Ground<C: CharAccumulator>(a: MP<C>, b: MP<C>, byte: u8)
    requires same_future(a, b), a.st == State::Ground,
    ensures
        model_step(a, byte, osc_cap()).1 == model_step(b, byte, osc_cap()).1,
        same_future(model_step(a, byte, osc_cap()).0, model_step(b, byte, osc_cap()).0),
{
    reveal(vt);
    reveal(model_action);
}

proof fn lemma_sf_OscString<C: CharAccumulator>(a: MP<C>, b: MP<C>, byte: u8)
    requires same_future(a, b), a.st == State::OscString,
    ensures
        model_step(a, byte, osc_cap()).1 == model_step(b, byte, osc_cap()).1,
        same_future(model_step(a, byte, osc_cap()).0, model_step(b, byte, osc_cap()).0),
{
    reveal(vt);
    reveal(model_action);
}

proof fn lemma_sf_SosPmApcString<C: CharAccumulator>(a: MP<C>, b: MP<C>, byte: u8)
    requires same_future(a, b), a.st == State::SosPmApcString,
    ensures
        model_step(a, byte, osc_cap()).1 == model_step(b, byte, osc_cap()).1,
        same_future(model_step(a, byte, osc_cap()).0, model_step(b, byte, osc_cap()).0),
{
    reveal(vt);
    reveal(model_action);
}

proof fn lemma_sf_Utf8<C: CharAccumulator>(a: MP<C>, b: MP<C>, byte: u8)
    requires same_future(a, b), a.st == State::Utf8,
    ensures
        model_step(a, byte, osc_cap()).1 == model_step(b, byte, osc_cap()).1,
        same_future(model_step(a, byte, osc_cap()).0, model_step(b, byte, osc_cap()).0),
{
    reveal(vt);
    reveal(model_action);
}

proof fn lemma_same_future_step<C: CharAccumulator>(a: MP<C>, b: MP<C>, byte: u8)
    requires same_future(a, b), a.st != State::Anywhere,
    ensures
        model_step(a, byte, osc_cap()).1 == model_step(b, byte, osc_cap()).1,
        same_future(model_step(a, byte, osc_cap()).0, model_step(b, byte, osc_cap()).0),
{
    if a.st == State::CsiEntry { lemma_sf_CsiEntry(a, b, byte); }
    else if a.st == State::CsiIgnore { lemma_sf_CsiIgnore(a, b, byte); }
    else if a.st == State::CsiIntermediate { lemma_sf_CsiIntermediate(a, b, byte); }
    else if a.st == State::CsiParam { lemma_sf_CsiParam(a, b, byte); }
    else if a.st == State::DcsEntry { lemma_sf_DcsEntry(a, b, byte); }
    else if a.st == State::DcsIgnore { lemma_sf_DcsIgnore(a, b, byte); }
    else if a.st == State::DcsIntermediate { lemma_sf_DcsIntermediate(a, b, byte); }
    else if a.st == State::DcsParam { lemma_sf_DcsParam(a, b, byte); }
    else if a.st == State::DcsPassthrough { lemma_sf_DcsPassthrough(a, b, byte); }
    else if a.st == State::Escape { lemma_sf_Escape(a, b, byte); }
    else if a.st == State::EscapeIntermediate { lemma_sf_EscapeIntermediate(a, b, byte); }
    else if a.st == State::Ground { lemma_sf_Ground(a, b, byte); }
    else if a.st == State::OscString { lemma_sf_OscString(a, b, byte); }
    else if a.st == State::SosPmApcString { lemma_sf_SosPmApcString(a, b, byte); }
    else if a.st == State::Utf8 { lemma_sf_Utf8(a, b, byte); }
}

/// CAN (0x18) and SUB (0x1A) abandon whatever is in progress from every Williams state: the
/// parser is back in Ground and everything that follows is parsed as by a parser whose
/// bookkeeping is empty
proof fn lemma_cancel<C: CharAccumulator>(m: MP<C>, byte: u8)
    requires byte == 0x18 || byte == 0x1a, m.st != State::Utf8, m.st != State::Anywhere,
    ensures
        model_step(m, byte, osc_cap()).0.st == State::Ground,
        same_future(model_step(m, byte, osc_cap()).0, MP {
            st: State::Ground, inter: Seq::empty(), ignoring: false, closed: Seq::empty(), open: Seq::empty(),
            param: 0, osc_raw: Seq::empty(), osc_bounds: Seq::empty(), utf8: m.utf8 }),
{
    reveal(vt);
    reveal(model_action);
}

// ---- C20: the feature configurations differ only by their documented limits (spec level) ----

/// fixed OSC buffer: as long as the payload fits, the capacity is unobservable
proof fn lemma_cap_irrelevant_action<C: CharAccumulator>(m: MP<C>, a: Action, byte: u8, cap: int)
    requires m.osc_raw.len() < cap || a != Action::OscPut,
    ensures model_action(m, a, byte, None) == model_action(m, a, byte, Some(cap)),
{
    reveal(model_action);
}

proof fn lemma_cap_irrelevant_step<C: CharAccumulator>(m: MP<C>, byte: u8, cap: int)
    requires m.osc_raw.len() < cap,
    ensures model_step(m, byte, None) == model_step(m, byte, Some(cap)),
{
    if m.st != State::Utf8 {
        let t = vt(m.st, byte);
        if t.0 == State::Anywhere {
            lemma_cap_irrelevant_action(m, t.1, byte, cap);
        } else {
            // exit and entry actions are never OscPut; only the transition action can be
            let e1 = m_exit(m, byte, None);
            lemma_cap_irrelevant_action(m, Action::Unhook, byte, cap);
            lemma_cap_irrelevant_action(m, Action::OscEnd, byte, cap);
            assert(m_exit(m, byte, Some(cap)) == e1);
            lemma_exit_keeps_payload(m, byte);
            lemma_cap_irrelevant_action(e1.0, t.1, byte, cap);
            let e2 = m_trans(e1, t.1, byte, None);
            assert(m_trans(e1, t.1, byte, Some(cap)) == e2);
            lemma_cap_irrelevant_action(e2.0, Action::Clear, byte, cap);
            lemma_cap_irrelevant_action(e2.0, Action::Hook, byte, cap);
            lemma_cap_irrelevant_action(e2.0, Action::OscStart, byte, cap);
        }
    }
}

proof fn lemma_exit_keeps_payload<C: CharAccumulator>(m: MP<C>, byte: u8)
    ensures m_exit(m, byte, None).0.osc_raw == m.osc_raw,
{
    reveal(model_action);
}

/// once the fixed buffer is full, payload bytes and separators are dropped and nothing else changes
proof fn lemma_full_buffer_drops<C: CharAccumulator>(m: MP<C>, byte: u8, cap: int)
    requires m.osc_raw.len() >= cap,
    ensures model_action(m, Action::OscPut, byte, Some(cap)) == (m, Seq::<Event>::empty()),
{
    reveal(model_action);
}

/// without UTF-8 support: a 7-bit byte never starts or continues a multi-byte character, so the
/// accumulator is never consulted and its choice is unobservable
proof fn lemma_seven_bit_no_utf8<C: CharAccumulator>(m: MP<C>, byte: u8, cap: Option<int>)
    requires byte < 0x80, m.st != State::Utf8,
    ensures
        vt(m.st, byte).1 != Action::BeginUtf8,
        model_step(m, byte, cap).0.st != State::Utf8,
        model_step(m, byte, cap).0.utf8 == m.utf8,
{
    reveal(vt);
    reveal(model_action);
}

} // verus!
fn main() {}
