// Verus unit `strip_scan` — C01 / C03 / C04: the two scan functions of the strip adapter.
// Executable text below every //@fn / //@item directive is cut verbatim from /repo.
#![allow(unused_imports, dead_code, unused_variables, unused_mut, unused_assignments, non_snake_case)]
use vstd::prelude::*;

verus! {

//@item crates/anstyle-parse/src/state/definitions.rs enum State
//@item crates/anstyle-parse/src/state/definitions.rs enum Action

//@include spec/vt.rs opaque=vt
//@include spec/strip.rs
//@include spec/strip_run.rs

// ---- leaves outside the Verus subset (rule E7): contract here, discharged by Kani ----

// anstyle_parse::state::state_change: 16x256 table lookup + transmute.
// Obligation kani:anstyle-parse::vt_table_state_change_eq_spec (complete, all 4096 pairs).
//@fn crates/anstyle-parse/src/state/mod.rs state_change unconst
//@ret r
//@contract
    ensures r == vt(state, byte),
//@external_body
//@end

// u8::is_ascii_whitespace — std; obligation kani:anstream::strip_leaf_predicates (all 256 bytes)
pub assume_specification [ u8::is_ascii_whitespace ] (b: &u8) -> (r: bool)
    ensures r == (*b == 0x09 || *b == 0x0a || *b == 0x0c || *b == 0x0d || *b == 0x20);

// anstream::adapter::strip::Utf8Parser wraps utf8parse::Parser (third-party, private state):
// opaque stand-in with an abstract view; obligation kani:anstream::strip_utf8_add_eq_s5
// (trace equivalence with S5 over all byte sequences until the accumulator is back at ground).
#[verifier::external_body]
struct Utf8Parser {
    _opaque: core::marker::PhantomData<()>,
}

impl Utf8Parser {
    uninterp spec fn view(&self) -> u8;

    #[verifier::external_body]
    fn add(&mut self, byte: u8) -> (r: bool)
        ensures (final(self).view(), r) == u8_feed(old(self).view(), byte),
    { unimplemented!() }

    #[verifier::external_body]
    fn default() -> (r: Self)
        ensures r.view() == 0,
    { unimplemented!() }
}

spec fn opt_bytes(r: Option<&[u8]>) -> Option<Seq<u8>> {
    match r { Some(p) => Some(p@), None => None }
}

// from_utf8_unchecked (unsafe leaf of next_str): bytes are returned as they are.
uninterp spec fn str_bytes(s: &str) -> Seq<u8>;

//@fn crates/anstream/src/adapter/strip.rs from_utf8_unchecked
//@ret r
//@contract
    ensures str_bytes(r) == bytes@,
//@external_body
//@end

//@fn crates/anstream/src/adapter/strip.rs is_utf8_continuation
//@ret r
//@contract
    ensures r == sp_is_cont(b),
//@end

//@fn crates/anstream/src/adapter/strip.rs is_printable_bytes
//@ret r
//@contract
    ensures r == ((action == Action::Print && byte != 0x7f) || action == Action::BeginUtf8
                  || (action == Action::Execute && sp_ascii_whitespace(byte))),
//@end

//@fn crates/anstream/src/adapter/strip.rs next_bytes
//@ret r
//@contract
    requires
        strip_wf(*old(state), old(utf8parser).view()),
    ensures
        strip_wf(*final(state), final(utf8parser).view()),
        exists|k: int, n: int| #[trigger] scan_post(*old(state), old(utf8parser).view(), old(bytes)@, final(bytes)@,
            opt_bytes(r), *final(state), final(utf8parser).view(), k, n),
//@desugar position
//@before 1 let mut offset: Option<usize> = None;
    let ghost s0 = *state;
    let ghost u0 = utf8parser.view();
    let ghost b0 = bytes@;
//@loop 1
        invariant_except_break
            offset.is_none(),
            (*state, utf8parser.view()) == ms(s0, u0, b0, offset_i as int),
        invariant
            offset_i <= bytes.len(),
            bytes@ == b0,
            strip_wf(s0, u0),
            forall|j: int| 0 <= j < offset_i ==> !kept(s0, u0, b0, j),
        ensures
            bytes@ == b0,
            offset.is_none() ==> offset_i == bytes.len() && (*state, utf8parser.view()) == ms(s0, u0, b0, b0.len() as int)
                && (forall|j: int| 0 <= j < b0.len() ==> !kept(s0, u0, b0, j)),
            offset.is_some() ==> offset.unwrap() < bytes.len() && kept(s0, u0, b0, offset.unwrap() as int)
                && (forall|j: int| 0 <= j < offset.unwrap() ==> !kept(s0, u0, b0, j))
                && (*state, utf8parser.view()) == settle(ms(s0, u0, b0, offset.unwrap() as int), b0[offset.unwrap() as int]),
        decreases bytes.len() - offset_i
//@after 1 let b = bytes[offset_i];
            proof {
                lemma_ms_wf(s0, u0, b0, offset_i as int);
                lemma_vt_facts(ms(s0, u0, b0, offset_i as int).0, b);
                lemma_vt_facts(State::Ground, b);
                lemma_ms_unfold(s0, u0, b0, offset_i as int + 1);
            }
//@after 1 *bytes = next;
    let ghost k: int = b0.len() - bytes@.len();
    let ghost b1 = bytes@;
    proof {
        assert(b1 == b0.subrange(k, b0.len() as int));
        assert(forall|j: int| 0 <= j < b1.len() ==> b1[j] == b0[k + j]);
    }
//@loop 2
        invariant_except_break
            offset.is_none(),
            offset_i > 0 ==> (*state, utf8parser.view()) == ms(s0, u0, b0, k + offset_i),
        invariant
            offset_i <= bytes.len(),
            bytes@ == b1,
            strip_wf(s0, u0),
            0 <= k <= b0.len(),
            b1 == b0.subrange(k, b0.len() as int),
            k < b0.len() ==> kept(s0, u0, b0, k),
            offset_i == 0 && k < b0.len() ==> (*state, utf8parser.view()) == settle(ms(s0, u0, b0, k), b0[k]),
            k == b0.len() ==> (*state, utf8parser.view()) == ms(s0, u0, b0, k),
            forall|j: int| k <= j < k + offset_i ==> kept(s0, u0, b0, j),
        ensures
            bytes@ == b1,
            offset.is_none() ==> offset_i == bytes.len() && (*state, utf8parser.view()) == ms(s0, u0, b0, b0.len() as int)
                && (forall|j: int| k <= j < b0.len() ==> kept(s0, u0, b0, j)),
            offset.is_some() ==> offset.unwrap() < bytes.len() && offset.unwrap() > 0 && !kept(s0, u0, b0, k + offset.unwrap())
                && (forall|j: int| k <= j < k + offset.unwrap() ==> kept(s0, u0, b0, j))
                && (*state, utf8parser.view()) == settle(ms(s0, u0, b0, k + offset.unwrap()), b0[k + offset.unwrap()]),
        decreases bytes.len() - offset_i
//@after 2 let b = bytes[offset_i];
            proof {
                assert(b == b0[k + offset_i]);
                lemma_ms_wf(s0, u0, b0, k + offset_i);
                lemma_vt_facts(ms(s0, u0, b0, k + offset_i).0, b);
                lemma_vt_facts(State::Ground, b);
                lemma_ms_unfold(s0, u0, b0, k + offset_i + 1);
            }
//@after 2 *bytes = next;
    proof {
        let n = printable@.len() as int;
        assert(printable@ == b0.subrange(k, k + n));
        assert(next@ == b0.subrange(k + n, b0.len() as int));
        lemma_ms_wf(s0, u0, b0, k + n);
        let rr: Option<Seq<u8>> = if n == 0 { None } else { Some(printable@) };
        assert(scan_post(s0, u0, b0, next@, rr, *state, utf8parser.view(), k, n));
    }
//@end

spec fn opt_str_bytes(r: Option<&str>) -> Option<Seq<u8>> {
    match r { Some(p) => Some(str_bytes(p)), None => None }
}

//@fn crates/anstream/src/adapter/strip.rs next_str
//@ret r
//@contract
    requires
        *old(state) != State::Anywhere,
        *old(state) != State::Utf8,
        cont_after_high(old(bytes)@),
    ensures
        *final(state) != State::Anywhere,
        *final(state) != State::Utf8,
        exists|k: int, n: int| #[trigger] scan_post_str(*old(state), old(bytes)@, final(bytes)@, opt_str_bytes(r), *final(state), k, n),
//@desugar position
//@before 1 let mut offset: Option<usize> = None;
    let ghost s0 = *state;
    let ghost b0 = bytes@;
//@loop 1
        invariant_except_break
            offset.is_none(),
            *state == mss(s0, b0, offset_i as int).0,
        invariant
            offset_i <= bytes.len(),
            bytes@ == b0,
            s0 != State::Anywhere && s0 != State::Utf8,
            !mss(s0, b0, offset_i as int).1,
            forall|j: int| 0 <= j < offset_i ==> !#[trigger] kept_str(s0, b0, j),
        ensures
            bytes@ == b0,
            offset.is_none() ==> offset_i == bytes.len() && *state == mss(s0, b0, b0.len() as int).0
                && (forall|j: int| 0 <= j < b0.len() ==> !#[trigger] kept_str(s0, b0, j)),
            offset.is_some() ==> offset.unwrap() < bytes.len() && kept_str(s0, b0, offset.unwrap() as int)
                && (forall|j: int| 0 <= j < offset.unwrap() ==> !#[trigger] kept_str(s0, b0, j))
                && !mss(s0, b0, offset.unwrap() as int).1
                && sp_printable(vt(mss(s0, b0, offset.unwrap() as int).0, b0[offset.unwrap() as int]).1, b0[offset.unwrap() as int])
                && (*state == mss(s0, b0, offset.unwrap() as int).0
                    || (*state == State::Utf8 && mss(s0, b0, offset.unwrap() as int).0 == State::Ground)),
        decreases bytes.len() - offset_i
//@after 1 let b = bytes[offset_i];
            proof {
                lemma_mss_wf(s0, b0, offset_i as int);
                lemma_vt_facts(mss(s0, b0, offset_i as int).0, b);
                lemma_mss_unfold(s0, b0, offset_i as int + 1);
            }
//@after 1 *bytes = next;
    let ghost k: int = b0.len() - bytes@.len();
    let ghost b1 = bytes@;
    let ghost sk = mss(s0, b0, k).0;
    proof {
        assert(b1 == b0.subrange(k, b0.len() as int));
        assert(forall|j: int| 0 <= j < b1.len() ==> b1[j] == b0[k + j]);
        lemma_mss_wf(s0, b0, k);
        if k < b0.len() { lemma_vt_facts(sk, b0[k]); }
    }
//@loop 2
        invariant_except_break
            offset.is_none(),
        invariant
            offset_i <= bytes.len(),
            bytes@ == b1,
            cont_after_high(b0),
            0 <= k <= b0.len(),
            b1 == b0.subrange(k, b0.len() as int),
            *state == sk,
            sk == mss(s0, b0, k).0,
            sk != State::Anywhere && sk != State::Utf8,
            k < b0.len() ==> !mss(s0, b0, k).1 && sp_printable(vt(sk, b0[k]).1, b0[k]),
            run_taken(s0, b0, k, k + offset_i, sk),
        ensures
            bytes@ == b1,
            *state == sk,
            offset.is_none() ==> offset_i == bytes.len() && run_taken(s0, b0, k, b0.len() as int, sk),
            offset.is_some() ==> offset.unwrap() < bytes.len() && offset.unwrap() > 0,
            offset.is_some() ==> !kept_str(s0, b0, k + offset.unwrap()),
            offset.is_some() ==> !sp_is_cont(b0[k + offset.unwrap()]),
            offset.is_some() ==> run_taken(s0, b0, k, k + offset.unwrap(), sk),
        decreases bytes.len() - offset_i
//@after 2 let b = bytes[offset_i];
            proof {
                let j = k + offset_i;
                assert(b == b0[j]);
                lemma_vt_facts(sk, b);
                let ic = mss(s0, b0, j).1;
                if offset_i > 0 {
                    assert(taken_at(s0, b0, j - 1, sk));
                    assert(mss(s0, b0, j).0 == sk);
                    assert(ic == (b0[j - 1] >= 0x80));
                    assert(sk != State::Ground ==> b0[j - 1] < 0x80);
                    assert(sp_is_cont(b) ==> b0[j - 1] >= 0x80);
                } else {
                    assert(!sp_is_cont(b));
                }
                lemma_str_step_taken(sk, ic, b);
                lemma_mss_unfold(s0, b0, j + 1);
                assert(kept_str(s0, b0, j) == (sp_printable(vt(sk, b).1, b) || sp_is_cont(b)));
                if kept_str(s0, b0, j) {
                    assert(taken_at(s0, b0, j, sk));
                    assert forall|jj: int| k <= jj < j + 1 implies #[trigger] taken_at(s0, b0, jj, sk) by {
                        if jj < j { } else { }
                    }
                }
            }
//@after 2 *bytes = next;
    proof {
        let n = printable@.len() as int;
        assert(printable@ == b0.subrange(k, k + n));
        assert(next@ == b0.subrange(k + n, b0.len() as int));
        if n > 0 {
            assert(taken_at(s0, b0, k + n - 1, sk));
            assert(mss(s0, b0, k + n).0 == sk);
        }
        assert forall|j: int| k <= j < k + n implies kept_str(s0, b0, j) by {
            assert(taken_at(s0, b0, j, sk));
        }
        let rr: Option<Seq<u8>> = if n == 0 { None } else { Some(printable@) };
        assert(scan_post_str(s0, b0, next@, rr, *state, k, n));
    }
//@end

} // verus!
fn main() {}
