#!/usr/bin/env python3
"""Regenerate MANIFEST.json from tools/props.py (single source of truth)."""
import json
import os
import sys
HERE = os.path.dirname(os.path.abspath(__file__))
sys.path.insert(0, HERE)
import props

VERIF = os.path.dirname(HERE)
ids = [json.loads(l)['id'] for l in open(os.path.join(VERIF, 'properties.jsonl'))]
checks = []
na = []
for pid in ids:
    if pid in props.PROPS:
        P = props.PROPS[pid]
        c = {
            'property_id': pid,
            'quick_cmd': f'./check {pid} --tier quick',
            'thorough_cmd': f'./check {pid} --tier thorough',
            'evidence_file': f'/verif/evidence/{pid}.json',
            'replay_cmd_template': f'./check {pid} --replay {{path}}',
            'engine': P.get('engine', 'verus+kani'),
            'level_claimed': {'category': P['level'], 'text': P.get('level_text', P.get('explanation', '')), 'design_ref': f'DESIGN.md section 5 {pid}'},
            'level_note': P.get('level_note', '; '.join(P.get('assumptions', [])) or 'see evidence.assumptions'),
            'technique': P.get('technique', 'contract-based deductive verification: Verus on mechanically extracted functions + Kani function-level harnesses'),
        }
        checks.append(c)
    else:
        na.append({'property_id': pid, 'reason': props.NOT_APPLICABLE.get(pid, 'not built yet')})
m = {
    'version': 1,
    'setup_cmd': 'true',
    'hooks': {
        'guard': 'cfg(kani) / cfg(verif_replay) — exist only inside the scratch copy the checks make; /repo carries no hooks',
        'enable': 'checks copy the working tree to a scratch directory and append `#[cfg(any(kani, verif_replay))] mod verif_kani;` lines there (append-only); Verus units are extracted from the working tree by tools/extract.py',
        'baseline_off_cmd': 'cd /repo && cargo test --workspace --no-fail-fast --offline',
        'source_commits': [],
        'add_only': True,
    },
    'engines': [
        {'name': 'verus-extract', 'path': 'tools/extract.py + units/*.rs', 'serves_properties': sorted(p for p in props.PROPS if any(props.PROPS[p].get(t, {}).get('verus') for t in ('quick', 'thorough'))), 'kind_free_text': 'Verus 0.2026.09.13 on single-file units re-extracted from /repo on every run'},
        {'name': 'kani-inject', 'path': 'tools/engine.py + kani/*', 'serves_properties': sorted(p for p in props.PROPS if any(props.PROPS[p].get(t, {}).get('kani') for t in ('quick', 'thorough'))), 'kind_free_text': 'Kani 0.68 / CBMC 6.11 harnesses injected append-only into a scratch copy; native replay of counterexamples'},
    ],
    'checks': checks,
    'not_applicable': na,
    'notes': 'exit 2 = undecided (lost anchor, unsupported construct, resource limit); never reported as a violation. See DESIGN.md.',
}
json.dump(m, open(os.path.join(VERIF, 'MANIFEST.json'), 'w'), indent=1)
print('claimed:', [c['property_id'] for c in checks])
print('not applicable:', [n['property_id'] for n in na])
