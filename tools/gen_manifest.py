#!/usr/bin/env python3
"""Regenerate MANIFEST.json from tools/props.py (single source of truth)."""
import json
import os
import sys
HERE = os.path.dirname(os.path.abspath(__file__))
sys.path.insert(0, HERE)
import props

VERIF = os.path.dirname(HERE)


def check_harness_names():
    """Kani's --harness is a substring filter: a registered harness whose name is contained in
    another harness name of the same crate would silently run (and be attributed) twice."""
    import glob
    import re
    bad = []
    for pid, P in props.PROPS.items():
        for tier in ('quick', 'thorough'):
            for job in P.get(tier, {}).get('kani', []):
                names = set()
                for f in glob.glob(os.path.join(VERIF, 'kani', job['crate'], '*.rs')) + glob.glob(os.path.join(VERIF, 'kani', 'common', '*.rs')):
                    t = open(f).read()
                    names |= set(re.findall(r'\bfn\s+([a-z][a-z0-9_]*)\s*\(', t))
                    names |= set(re.findall(r'\b[a-z_]+!\(\s*([a-z][a-z0-9_]*)\s*,', t))
                for h in job['harnesses']:
                    if h not in names:
                        bad.append(f'{pid}: harness {h} is not defined under kani/{job["crate"]}')
                    for g in names:
                        if g != h and h in g:
                            bad.append(f'{pid}: harness name {h} is a substring of {g} (kani/{job["crate"]})')
    if bad:
        print('\n'.join(sorted(set(bad))))
        sys.exit(1)


check_harness_names()
ids = [json.loads(l)['id'] for l in open(os.path.join(VERIF, 'properties.jsonl'))]
checks = []
na = []
for pid in ids:
    if pid in props.PROPS:
        P = props.PROPS[pid]
        c = {
            'property_id': pid,
            'quick_cmd': f'./check {pid} --tier quick',
            'thorough_cmd': f'./check {pid} --tier thorough',
            'evidence_file': f'/verif/evidence/{pid}.json',
            'replay_cmd_template': f'./check {pid} --replay {{path}}',
            'engine': P.get('engine', 'verus+kani'),
            'level_claimed': {'category': P['level'], 'text': P.get('level_text', P.get('explanation', '')), 'design_ref': f'DESIGN.md section 5 {pid}'},
            'level_note': P.get('level_note', '; '.join(P.get('assumptions', [])) or 'see evidence.assumptions'),
            'technique': P.get('technique', 'contract-based deductive verification: Verus on mechanically extracted functions + Kani function-level harnesses'),
        }
        checks.append(c)
    else:
        na.append({'property_id': pid, 'reason': props.NOT_APPLICABLE.get(pid, 'not built yet')})
m = {
    'version': 1,
    'setup_cmd': 'true',
    'hooks': {
        'guard': 'cfg(kani) / cfg(verif_replay) — exist only inside the scratch copy the checks make; /repo carries no hooks',
        'enable': 'checks copy the working tree to a scratch directory and append `#[cfg(any(kani, all(verif_replay, test)))] #[cfg(not(verif_skip_<module>))] mod ...;` lines there (append-only; plus a two-method `impl Params` hook, an `impl Parser` stand-in method for `advance` with two log statics (`cfg(any(kani, verif_replay))`) and one Cargo.toml table for anstream, see kani/anstream/inject.json); Verus units are extracted from the working tree by tools/extract.py',
        'baseline_off_cmd': 'cd /repo && cargo test --workspace --no-fail-fast --offline',
        'source_commits': [],
        'add_only': True,
    },
    'engines': [
        {'name': 'verus-extract', 'path': 'tools/extract.py + units/*.rs', 'serves_properties': sorted(p for p in props.PROPS if any(props.PROPS[p].get(t, {}).get('verus') for t in ('quick', 'thorough'))), 'kind_free_text': 'Verus 0.2026.09.13 on single-file units re-extracted from /repo on every run'},
        {'name': 'kani-inject', 'path': 'tools/engine.py + kani/*', 'serves_properties': sorted(p for p in props.PROPS if any(props.PROPS[p].get(t, {}).get('kani') for t in ('quick', 'thorough'))), 'kind_free_text': 'Kani 0.68 / CBMC 6.11 harnesses injected append-only into a scratch copy; native replay of counterexamples'},
    ],
    'checks': checks,
    'not_applicable': na,
    'notes': 'exit 2 = undecided (lost anchor, unsupported construct, resource limit); never reported as a violation. See DESIGN.md.',
}
json.dump(m, open(os.path.join(VERIF, 'MANIFEST.json'), 'w'), indent=1)
print('claimed:', [c['property_id'] for c in checks])
print('not applicable:', [n['property_id'] for n in na])
