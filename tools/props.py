"""Property -> units / harnesses / level.  One entry per *claimed* property."""

TRUSTED_BASE = [
    'rustc/LLVM semantics as modelled by Verus (VIR) and Kani (MIR->goto)',
    'Z3 (bundled with Verus 0.2026.09.13) and CBMC 6.11 with its SAT back end',
    'vstd specifications of std (slices, arrays, Option, integer ops)',
    'tools/extract.py rules E1-E9 (lexer, attribute/visibility/derive rewriting, contract splice, two desugarings)',
    'spec/*.rs text is transcribed identically into Verus units and Kani harness crates (mechanical rewrite `spec fn` -> `fn`)',
]

PROPS = {}

PROPS['C10'] = {
    'level': 'proof',
    'functions': [
        'anstyle_lossy::distance', 'anstyle_lossy::find_xterm_match', 'anstyle_lossy::palette::Palette::find_match',
        'Palette::{get,get_ansi256_ref,rgb_from_ansi,rgb_from_index}', 'anstyle_lossy::{color_to_rgb,color_to_xterm,color_to_ansi,ansi_to_rgb,xterm_to_rgb,xterm_to_ansi,rgb_to_ansi,rgb_to_xterm}',
        'anstyle::{RgbColor::{r,g,b},Ansi256Color::{index,into_ansi,from_ansi}}',
    ],
    'quick': {'verus': ['lossy'], 'kani': [
        {'crate': 'anstyle-lossy', 'harnesses': ['lossy_passthrough_and_low_indices'], 'timeout': 600}]},
    'thorough': {'verus': ['lossy'], 'kani': [
        {'crate': 'anstyle-lossy', 'harnesses': ['lossy_passthrough_and_low_indices', 'lossy_distance_eq_spec'], 'timeout': 1800}]},
    'twins': {'lossy': [{'crate': 'anstyle-lossy', 'harnesses': ['lossy_distance_eq_spec', 'lossy_find_match_vga', 'lossy_find_match_win10'], 'timeout': 300}]},
    'bounded': {'lossy_distance_eq_spec': 'cross-engine twin of the Verus proof of `distance`: c1 symbolic, c2 components in {0,128,255}'},
    'assumptions': [
        'Palette as Index<AnsiColor> / Default / From<RawPalette> trait impls are one-line forwards to functions under contract and are not themselves extracted',
    ],
    'explanation': 'Verus proves, for every colour and every palette content, the argmin/lowest-index postcondition of both scans, '
                   'distance == published red-mean metric (x512) without overflow, and the pass-through/exact-index clauses of all eight conversion functions.',
}

ALG = ['alg_effects_membership', 'alg_effects_set_laws', 'alg_effects_iter', 'alg_effects_debug',
       'alg_style_builders', 'alg_style_convenience', 'alg_color_tables']
PROPS['C13'] = {
    'level': 'proof',
    'functions': ['anstyle::Effects::{new,is_plain,contains,insert,remove,clear,set,iter,index_iter}', 'BitOr/BitOrAssign/Sub/SubAssign/Debug/PartialEq/Default for Effects',
                  'EffectIter::next', 'EffectIndexIter::next',
                  'anstyle::Style::{new,fg_color,bg_color,underline_color,effects,bold,dimmed,italic,underline,blink,invert,hidden,strikethrough,get_*,is_plain}',
                  'BitOr/BitOrAssign/Sub/SubAssign<Effects>, PartialEq<Effects>, From<Effects> for Style',
                  'AnsiColor::{bright,is_bright,on,on_default}', 'Ansi256Color::{into_ansi,from_ansi,index}', 'Color::{on,on_default}, From impls', 'RgbColor::{r,g,b}'],
    'quick': {'kani': [{'crate': 'anstyle', 'harnesses': ALG, 'timeout': 900}]},
    'thorough': {'kani': [{'crate': 'anstyle', 'harnesses': ALG, 'timeout': 1800}]},
    'bounded': {'alg_effects_debug': 'Debug text checked concretely for the empty set, 12 singletons, 66 pairs and the full set (80 of 4096 sets); member order for all sets from alg_effects_iter (complete)'},
    'assumptions': ['core::fmt machinery (format_args!, Formatter::write_str/pad) as compiled by Kani'],
    'explanation': 'Loop-free or table-length-bounded (12) harnesses over full symbolic domains: complete proofs, except the Debug text which is bounded in set size.',
}

PROPS['C16'] = {
    'level': 'proof',
    'functions': ['anstyle_crossterm::{to_crossterm,to_ansi_color,ansi_to_ansi_color,xterm_to_ansi_color,rgb_to_ansi_color}',
                  'anstyle_ansi_term::{to_ansi_term,to_ansi_color,ansi_to_ansi_color,...}', 'anstyle_owo_colors::{to_owo_style,to_owo_colors,ansi_to_owo_colors_color,...}',
                  'anstyle_termcolor::{to_termcolor_spec,to_termcolor_color,ansi_to_termcolor_color,...}', 'anstyle_yansi::{to_yansi_style,to_yansi_color,ansi_to_yansi_color,...}',
                  'anstyle_syntect::{to_anstyle,to_anstyle_color,to_anstyle_effects}'],
    'quick': {'kani': [
        {'crate': 'anstyle-crossterm', 'harnesses': ['adapt_crossterm'], 'timeout': 600},
        {'crate': 'anstyle-ansi-term', 'harnesses': ['adapt_ansi_term'], 'timeout': 600},
        {'crate': 'anstyle-owo-colors', 'harnesses': ['adapt_owo_color', 'adapt_owo_style'], 'timeout': 600},
        {'crate': 'anstyle-termcolor', 'harnesses': ['adapt_termcolor'], 'timeout': 600},
        {'crate': 'anstyle-yansi', 'harnesses': ['adapt_yansi'], 'timeout': 600},
        {'crate': 'anstyle-syntect', 'harnesses': ['adapt_syntect'], 'timeout': 600},
    ]},
    'assumptions': ['each third-party library renders its own style values into the escape codes its documentation states (the statement\'s "rendering it with that library" step is the library\'s contract, not re-verified)',
                    'expected values are built with the target library\'s public constructors/builders from hue tables written from each library\'s documentation'],
    'explanation': 'Symbolic anstyle::Style (all colours incl. full RGB, all 4096 effect sets) -> converted value compared field-by-field / by PartialEq with an independently built expected value. Loop bound 12 = effect table length: complete.',
}
PROPS['C16']['thorough'] = PROPS['C16']['quick']

NOT_APPLICABLE = {
    'C14': 'whole-document XML/string property through format!, html_escape, unicode-width and BTreeMap: no contract language available here can state well-formedness over String; Verus has no str/format reasoning and Kani does not terminate on this code (DESIGN.md section 6)',
    'C15': 'segmentation is the cansi crate, escaping/rendering the roff crate (opaque Roff type); the repository-own logic is five finite leaf functions that do not decide the statement (DESIGN.md section 6)',
}
