"""Property -> units / harnesses / level.  One entry per *claimed* property."""

TRUSTED_BASE = [
    'rustc/LLVM semantics as modelled by Verus (VIR) and Kani (MIR->goto)',
    'Z3 (bundled with Verus 0.2026.09.13) and CBMC 6.11 with its SAT back end',
    'vstd specifications of std (slices, arrays, Option, integer ops)',
    'tools/extract.py rules E1-E9 (lexer, attribute/visibility/derive rewriting, contract splice, two desugarings)',
    'spec/*.rs text is transcribed identically into Verus units and Kani harness crates (mechanical rewrite `spec fn` -> `fn`)',
]

PROPS = {}

PROPS['C10'] = {
    'level': 'proof',
    'functions': [
        'anstyle_lossy::distance', 'anstyle_lossy::find_xterm_match', 'anstyle_lossy::palette::Palette::find_match',
        'Palette::{get,get_ansi256_ref,rgb_from_ansi,rgb_from_index}', 'anstyle_lossy::{color_to_rgb,color_to_xterm,color_to_ansi,ansi_to_rgb,xterm_to_rgb,xterm_to_ansi,rgb_to_ansi,rgb_to_xterm}',
        'anstyle::{RgbColor::{r,g,b},Ansi256Color::{index,into_ansi,from_ansi}}',
    ],
    'quick': {'verus': ['lossy'], 'kani': [
        {'crate': 'anstyle-lossy', 'harnesses': ['lossy_passthrough_and_low_indices'], 'timeout': 600}]},
    'thorough': {'verus': ['lossy'], 'kani': [
        {'crate': 'anstyle-lossy', 'harnesses': ['lossy_passthrough_and_low_indices', 'lossy_distance_eq_spec'], 'timeout': 1800}]},
    'twins': {'lossy': [{'crate': 'anstyle-lossy', 'harnesses': ['lossy_distance_eq_spec', 'lossy_find_match_vga', 'lossy_find_match_win10'], 'timeout': 300}]},
    'bounded': {'lossy_distance_eq_spec': 'cross-engine twin of the Verus proof of `distance`: c1 symbolic, c2 components in {0,128,255}'},
    'assumptions': [
        'Palette as Index<AnsiColor> / Default / From<RawPalette> trait impls are one-line forwards to functions under contract and are not themselves extracted',
    ],
    'explanation': 'Verus proves, for every colour and every palette content, the argmin/lowest-index postcondition of both scans, '
                   'distance == published red-mean metric (x512) without overflow, and the pass-through/exact-index clauses of all eight conversion functions.',
}

ALG = ['alg_effects_membership', 'alg_effects_set_laws', 'alg_effects_iter', 'alg_effects_debug',
       'alg_style_builders', 'alg_style_convenience', 'alg_color_tables']
PROPS['C13'] = {
    'level': 'proof',
    'functions': ['anstyle::Effects::{new,is_plain,contains,insert,remove,clear,set,iter,index_iter}', 'BitOr/BitOrAssign/Sub/SubAssign/Debug/PartialEq/Default for Effects',
                  'EffectIter::next', 'EffectIndexIter::next',
                  'anstyle::Style::{new,fg_color,bg_color,underline_color,effects,bold,dimmed,italic,underline,blink,invert,hidden,strikethrough,get_*,is_plain}',
                  'BitOr/BitOrAssign/Sub/SubAssign<Effects>, PartialEq<Effects>, From<Effects> for Style',
                  'AnsiColor::{bright,is_bright,on,on_default}', 'Ansi256Color::{into_ansi,from_ansi,index}', 'Color::{on,on_default}, From impls', 'RgbColor::{r,g,b}'],
    'quick': {'kani': [{'crate': 'anstyle', 'harnesses': ALG, 'timeout': 900}]},
    'thorough': {'kani': [{'crate': 'anstyle', 'harnesses': ALG, 'timeout': 1800}]},
    'bounded': {'alg_effects_debug': 'Debug text checked concretely for five representative sets (empty, BOLD, STRIKETHROUGH, UNDERLINE|BLINK, DIMMED|ITALIC|HIDDEN); member order for all 4096 sets from alg_effects_iter (complete)'},
    'assumptions': ['core::fmt machinery (format_args!, Formatter::write_str/pad) as compiled by Kani'],
    'explanation': 'Loop-free or table-length-bounded (12) harnesses over full symbolic domains: complete proofs, except the Debug text which is bounded in set size.',
}

PROPS['C16'] = {
    'level': 'proof',
    'functions': ['anstyle_crossterm::{to_crossterm,to_ansi_color,ansi_to_ansi_color,xterm_to_ansi_color,rgb_to_ansi_color}',
                  'anstyle_ansi_term::{to_ansi_term,to_ansi_color,ansi_to_ansi_color,...}', 'anstyle_owo_colors::{to_owo_style,to_owo_colors,ansi_to_owo_colors_color,...}',
                  'anstyle_termcolor::{to_termcolor_spec,to_termcolor_color,ansi_to_termcolor_color,...}', 'anstyle_yansi::{to_yansi_style,to_yansi_color,ansi_to_yansi_color,...}',
                  'anstyle_syntect::{to_anstyle,to_anstyle_color,to_anstyle_effects}'],
    'quick': {'kani': [
        {'crate': 'anstyle-crossterm', 'harnesses': ['adapt_crossterm'], 'timeout': 600},
        {'crate': 'anstyle-ansi-term', 'harnesses': ['adapt_ansi_term'], 'timeout': 600},
        {'crate': 'anstyle-owo-colors', 'harnesses': ['adapt_owo_color', 'adapt_owo_style'], 'timeout': 600},
        {'crate': 'anstyle-termcolor', 'harnesses': ['adapt_termcolor'], 'timeout': 600},
        {'crate': 'anstyle-yansi', 'harnesses': ['adapt_yansi'], 'timeout': 600},
        {'crate': 'anstyle-syntect', 'harnesses': ['adapt_syntect'], 'timeout': 600},
    ]},
    'assumptions': ['each third-party library renders its own style values into the escape codes its documentation states (the statement\'s "rendering it with that library" step is the library\'s contract, not re-verified)',
                    'expected values are built with the target library\'s public constructors/builders from hue tables written from each library\'s documentation'],
    'explanation': 'Symbolic anstyle::Style (all colours incl. full RGB, all 4096 effect sets) -> converted value compared field-by-field / by PartialEq with an independently built expected value. Loop bound 12 = effect table length: complete.',
}
PROPS['C16']['thorough'] = PROPS['C16']['quick']

NOT_APPLICABLE = {
    'C14': 'whole-document XML/string property through format!, html_escape, unicode-width and BTreeMap: no contract language available here can state well-formedness over String; Verus has no str/format reasoning and Kani does not terminate on this code (DESIGN.md section 6)',
    'C15': 'segmentation is the cansi crate, escaping/rendering the roff crate (opaque Roff type); the repository-own logic is five finite leaf functions that do not decide the statement (DESIGN.md section 6)',
}

REND_QUICK = ['render_write_code_all', 'render_buffer_capacity', 'render_color_display', 'render_color_io', 'render_color_entry_points',
              'render_effects_all', 'render_reset_forms', 'render_style_roundtrip', 'render_flags_width_right', 'render_flags_alt_width']
REND_ALL = REND_QUICK + ['render_flags_fill_center', 'render_flags_precision', 'render_flags_zero', 'render_flags_alt_precision', 'render_flags_alt_fill']
PROPS['C05'] = {
    'level': 'proof',
    'functions': ['anstyle::color::DisplayBuffer::{write_str,write_code,as_str,write_to}', 'AnsiColor/Ansi256Color/RgbColor::{as_fg_buffer,as_bg_buffer,as_underline_buffer,render_fg,render_bg}',
                  'Color::{render_fg,render_bg,render_underline,write_fg_to,write_bg_to,write_underline_to}', 'Effects::{render,write_to}', 'EffectsDisplay::fmt',
                  'Style::{fmt_to,write_to,render,render_reset,write_reset_to}', 'Display for Style/StyleDisplay/Reset/DisplayBuffer/NullFormatter'],
    'quick': {'kani': [{'crate': 'anstyle', 'harnesses': REND_QUICK, 'timeout': 1500, 'mem_gb': 12}]},
    'thorough': {'kani': [{'crate': 'anstyle', 'harnesses': REND_ALL, 'timeout': 3000, 'mem_gb': 12}]},
    'assumptions': ['core::fmt machinery (format_args!, Formatter::write_str/pad, fmt::write) as compiled by Kani',
                    'S4 (spec/sgr.rs) is the reference SGR interpreter; underline kinds are independent bits (the only reading under which all 4096 effect sets can round-trip)'],
    'explanation': 'Symbolic style over the full domain (16+256+2^24 colours per slot x 4096 effect sets) rendered through both paths into a fixed buffer and interpreted by the S4 oracle; loop bounds are the buffer sizes (complete).',
}

STRIP_LEAVES = ['strip_leaf_predicates', 'strip_utf8_add_eq_s5', 'strip_s5_bounded_depth']
VT_TABLE = {'crate': 'anstyle-parse', 'harnesses': ['vt_table_state_change_eq_spec', 'vt_table_unpack_total'], 'timeout': 600, 'flags': ['-Z', 'valid-value-checks']}
PROPS['C01'] = {
    'level': 'proof',
    'functions': ['anstream::adapter::strip::{next_bytes,next_str,is_printable_bytes,is_utf8_continuation}', 'anstyle_parse::state::{state_change,state_change_,unpack}',
                  'anstream::adapter::strip::Utf8Parser::add'],
    'quick': {'verus': ['strip_scan'], 'kani': [VT_TABLE,
        {'crate': 'anstream', 'harnesses': STRIP_LEAVES + ['strip_next_bytes_onecall_n3', 'strip_next_str_onecall_n3'], 'timeout': 900}]},
    'thorough': {'verus': ['strip_scan'], 'kani': [VT_TABLE,
        {'crate': 'anstream', 'harnesses': STRIP_LEAVES + ['strip_next_bytes_onecall_n5', 'strip_next_str_onecall_n4'], 'timeout': 3000}]},
    'bounded': {'strip_next_bytes_onecall_n3': 'twin of the Verus proof on the un-desugared function: one call, inputs <= 3 bytes, any carried state',
                'strip_next_str_onecall_n3': 'twin of the Verus proof: one call, valid UTF-8 inputs <= 3 bytes; also discharges valid-UTF-8-piece (C04) for that bound',
                'strip_next_bytes_onecall_n5': 'as n3 with inputs <= 5 bytes', 'strip_next_str_onecall_n4': 'as n3 with inputs <= 4 bytes'},
    'assumptions': ['std Iterator::position / iter().copied() semantics (rule E8a desugaring), cross-checked by the bounded Kani twins on the un-desugared functions',
                    'utf8parse crate: behaviour of Parser::advance as compiled by Kani (trace-equivalence with S5 is proved, complete)'],
    'explanation': 'Verus proves for inputs of any length and any carried state that one call of next_bytes/next_str returns exactly the next maximal run of model-visible bytes as a sub-slice, leaves the rest, and carries the model state; leaves (table, predicates, UTF-8 accumulator) are discharged completely by Kani.',
}
