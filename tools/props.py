"""Property -> units / harnesses / level.  One entry per *claimed* property."""

TRUSTED_BASE = [
    'rustc/LLVM semantics as modelled by Verus (VIR) and Kani (MIR->goto)',
    'Z3 (bundled with Verus 0.2026.09.13) and CBMC 6.11 with its SAT back end',
    'vstd specifications of std (slices, arrays, Option, integer ops)',
    'tools/extract.py rules E1-E11 (lexer, attribute/visibility/derive rewriting, contract splice, two desugarings, slices, module constants)',
    'spec/*.rs text is transcribed identically into Verus units and Kani harness crates (mechanical rewrite `spec fn` -> `fn`)',
]

PROPS = {}

PROPS['C10'] = {
    'level': 'proof',
    'functions': [
        'anstyle_lossy::distance', 'anstyle_lossy::find_xterm_match', 'anstyle_lossy::palette::Palette::find_match',
        'Palette::{get,get_ansi256_ref,rgb_from_ansi,rgb_from_index}', 'anstyle_lossy::{color_to_rgb,color_to_xterm,color_to_ansi,ansi_to_rgb,xterm_to_rgb,xterm_to_ansi,rgb_to_ansi,rgb_to_xterm}',
        'anstyle::{RgbColor::{r,g,b},Ansi256Color::{index,into_ansi,from_ansi}}',
    ],
    'quick': {'verus': ['lossy'], 'kani': [
        {'crate': 'anstyle-lossy', 'harnesses': ['lossy_passthrough_and_low_indices', 'lossy_find_match_all_equal', 'lossy_xterm_table_edges_lo', 'lossy_xterm_table_edges_hi'], 'timeout': 900}]},
    'thorough': {'verus': ['lossy'], 'kani': [
        {'crate': 'anstyle-lossy', 'harnesses': ['lossy_passthrough_and_low_indices', 'lossy_find_match_all_equal', 'lossy_xterm_table_edges_lo', 'lossy_xterm_table_edges_hi', 'lossy_distance_eq_spec'], 'timeout': 1800}]},
    'twins': {'lossy': [{'crate': 'anstyle-lossy', 'harnesses': ['lossy_distance_eq_spec', 'lossy_find_match_vga', 'lossy_find_match_win10'], 'timeout': 300}]},
    'bounded': {'lossy_xterm_table_edges_lo': 'three concrete table entries (16, 17, 231): exactness twin of the Verus proof', 'lossy_xterm_table_edges_hi': 'three concrete table entries (232, 254, 255)',
                'lossy_distance_eq_spec': 'cross-engine twin of the Verus proof of `distance`: c1 symbolic, c2 components in {0,128,255}',
                'lossy_find_match_all_equal': 'palettes whose 16 entries are one (symbolic) colour, input colour symbolic: tie-break twin of the Verus proof of find_match'},
    'assumptions': [
        'Palette as Index<AnsiColor> / Default / From<RawPalette> trait impls are one-line forwards to functions under contract and are not themselves extracted',
    ],
    'explanation': 'Verus proves, for every colour and every palette content, the argmin/lowest-index postcondition of both scans, '
                   'distance == published red-mean metric (x512) without overflow, and the pass-through/exact-index clauses of all eight conversion functions.',
}

ALG = ['alg_effects_membership', 'alg_effects_set_laws', 'alg_effects_iter', 'alg_effects_dbg_samples', 'alg_effects_dbg_singles_lo', 'alg_effects_dbg_singles_hi',
       'alg_style_builders', 'alg_style_convenience', 'alg_color_tables']
PROPS['C13'] = {
    'level': 'proof',
    'functions': ['anstyle::Effects::{new,is_plain,contains,insert,remove,clear,set,iter,index_iter}', 'BitOr/BitOrAssign/Sub/SubAssign/Debug/PartialEq/Default for Effects',
                  'EffectIter::next', 'EffectIndexIter::next',
                  'anstyle::Style::{new,fg_color,bg_color,underline_color,effects,bold,dimmed,italic,underline,blink,invert,hidden,strikethrough,get_*,is_plain}',
                  'BitOr/BitOrAssign/Sub/SubAssign<Effects>, PartialEq<Effects>, From<Effects> for Style',
                  'AnsiColor::{bright,is_bright,on,on_default}', 'Ansi256Color::{into_ansi,from_ansi,index}', 'Color::{on,on_default}, From impls', 'RgbColor::{r,g,b}'],
    'quick': {'kani': [{'crate': 'anstyle', 'harnesses': ALG, 'timeout': 900, 'fmt_direct': True}]},
    'thorough': {'kani': [{'crate': 'anstyle', 'harnesses': ALG, 'timeout': 1800, 'fmt_direct': True}]},
    'bounded': {'alg_effects_dbg_samples': 'Debug text checked concretely for five representative sets (empty, BOLD, STRIKETHROUGH, UNDERLINE|BLINK, DIMMED|ITALIC|HIDDEN); member order for all 4096 sets from alg_effects_iter (complete)',
                'alg_effects_dbg_singles_lo': 'Debug text of the one-member sets DIMMED..CURLY_UNDERLINE (concrete)',
                'alg_effects_dbg_singles_hi': 'Debug text of the one-member sets DOTTED_UNDERLINE..HIDDEN (concrete)'},
    'assumptions': ['core::fmt machinery (format_args!, Formatter::write_str/pad) as compiled by Kani'],
    'explanation': 'Loop-free or table-length-bounded (12) harnesses over full symbolic domains: complete proofs, except the Debug text which is bounded in set size.',
}

PROPS['C16'] = {
    'level': 'proof',
    'functions': ['anstyle_crossterm::{to_crossterm,to_ansi_color,ansi_to_ansi_color,xterm_to_ansi_color,rgb_to_ansi_color}',
                  'anstyle_ansi_term::{to_ansi_term,to_ansi_color,ansi_to_ansi_color,...}', 'anstyle_owo_colors::{to_owo_style,to_owo_colors,ansi_to_owo_colors_color,...}',
                  'anstyle_termcolor::{to_termcolor_spec,to_termcolor_color,ansi_to_termcolor_color,...}', 'anstyle_yansi::{to_yansi_style,to_yansi_color,ansi_to_yansi_color,...}',
                  'anstyle_syntect::{to_anstyle,to_anstyle_color,to_anstyle_effects}'],
    'quick': {'kani': [
        {'crate': 'anstyle-crossterm', 'harnesses': ['adapt_crossterm'], 'timeout': 600},
        {'crate': 'anstyle-ansi-term', 'harnesses': ['adapt_ansi_term'], 'timeout': 600},
        {'crate': 'anstyle-owo-colors', 'harnesses': ['adapt_owo_color', 'adapt_owo_style'], 'timeout': 600},
        {'crate': 'anstyle-termcolor', 'harnesses': ['adapt_termcolor'], 'timeout': 600},
        {'crate': 'anstyle-yansi', 'harnesses': ['adapt_yansi'], 'timeout': 600},
        {'crate': 'anstyle-syntect', 'harnesses': ['adapt_syntect'], 'timeout': 600},
    ]},
    'assumptions': ['each third-party library renders its own style values into the escape codes its documentation states (the statement\'s "rendering it with that library" step is the library\'s contract, not re-verified)',
                    'expected values are built with the target library\'s public constructors/builders from hue tables written from each library\'s documentation'],
    'explanation': 'Symbolic anstyle::Style (all colours incl. full RGB, all 4096 effect sets) -> converted value compared field-by-field / by PartialEq with an independently built expected value. Loop bound 12 = effect table length: complete.',
}
PROPS['C16']['thorough'] = PROPS['C16']['quick']

NOT_APPLICABLE = {
    'C14': 'whole-document XML/string property through format!, html_escape, unicode-width and BTreeMap: no contract language available here can state well-formedness over String; Verus has no str/format reasoning and Kani does not terminate on this code (DESIGN.md section 6)',
    'C15': 'segmentation is the cansi crate, escaping/rendering the roff crate (opaque Roff type); the repository-own logic is five finite leaf functions that do not decide the statement (DESIGN.md section 6)',
}

REND_CORE = ['render_write_code_all', 'render_buffer_ansi16', 'render_buffer_ansi256', 'render_buffer_rgb_fg', 'render_buffer_rgb_bg',
             'render_buffer_rgb_underline', 'render_color_write_paths', 'render_effect_escapes', 'render_effects_concat',
             'render_style_concat', 'render_reset_io']
REND_FMT = ['render_display_matches_io_s0', 'render_display_matches_io_s1', 'render_display_matches_io_s2', 'render_display_matches_io_s3', 'render_display_matches_io_s4', 'render_reset_value', 'render_style_reset_small_flags']
REND_QUICK = REND_CORE + REND_FMT
REND_ALL = REND_CORE + REND_FMT
PROPS['C05'] = {
    'level': 'proof',
    'functions': ['anstyle::color::DisplayBuffer::{write_str,write_code,as_str,write_to}', 'AnsiColor/Ansi256Color/RgbColor::{as_fg_buffer,as_bg_buffer,as_underline_buffer,render_fg,render_bg}',
                  'Color::{render_fg,render_bg,render_underline,write_fg_to,write_bg_to,write_underline_to}', 'Effects::{render,write_to}', 'EffectsDisplay::fmt',
                  'Style::{fmt_to,write_to,render,render_reset,write_reset_to}', 'Display for Style/StyleDisplay/Reset/DisplayBuffer/NullFormatter'],
    'quick': {'kani': [{'crate': 'anstyle', 'harnesses': REND_QUICK, 'timeout': 1500, 'mem_gb': 8, 'jobs': 8, 'flags': ['-Z', 'stubbing'], 'fmt_direct': True}]},
    'thorough': {'kani': [{'crate': 'anstyle', 'harnesses': REND_ALL, 'timeout': 3000, 'mem_gb': 8, 'jobs': 8, 'flags': ['-Z', 'stubbing'], 'fmt_direct': True}]},
    'assumptions': ['format_args!/fmt::Arguments dispatch to the Display impl with the options of the format string (std; the harness constructs the Formatter directly, unstable `formatting_options`, because CBMC does not finish on the function pointers of fmt::Arguments)',
                    'S4 (spec/sgr.rs) is the reference SGR interpreter; underline kinds are independent bits (the only reading under which all 4096 effect sets can round-trip)'],
    'bounded': {**{h: 'one concrete sample style; format flags (width, fill, alignment, precision, zero padding, alternate) fully symbolic' for h in REND_FMT if h.startswith('render_display')},
                'render_style_reset_small_flags': 'sixteen concrete width / precision combinations (twin of the display harnesses for Style::render_reset that stays decidable when the value honours the flags)'},
    'explanation': 'Compositional: every colour buffer and every effect escape interprets (S4) to exactly its colour/effect (complete over all values); Style::write_to is the in-order concatenation of those parts for every style (symbolic, complete); the Display paths are compared piece-by-piece with the io::Write path on five sample styles for every combination of width, fill, alignment, precision, zero-padding and alternate flag (symbolic FormattingOptions on a directly constructed Formatter; bounded in the style only).',
}

STRIP_LEAVES = ['strip_leaf_predicates', 'strip_utf8_add_eq_s5', 'strip_s5_bounded_depth']
# `-Z valid-value-checks` (invalid enum values from transmute) only for the unpack harness: Kani's
# instrumentation pass panics (internal compiler error) when the MaybeUninit code of osc_dispatch is in scope
VT_UNPACK = {'crate': 'anstyle-parse', 'harnesses': ['vt_table_unpack_total'], 'timeout': 600, 'flags': ['-Z', 'valid-value-checks'], 'tag': 'vv', 'only_modules': 'vt'}
VT_TABLE = {'crate': 'anstyle-parse', 'harnesses': ['vt_table_state_change_eq_spec', 'vt_table_try_from'], 'timeout': 600}
PROPS['C01'] = {
    'level': 'proof',
    'functions': ['anstream::adapter::strip::{next_bytes,next_str,is_printable_bytes,is_utf8_continuation}', 'anstyle_parse::state::{state_change,state_change_,unpack}',
                  'anstream::adapter::strip::Utf8Parser::add'],
    'quick': {'verus': ['strip_scan'], 'kani': [VT_TABLE, VT_UNPACK,
        {'crate': 'anstream', 'harnesses': STRIP_LEAVES + ['strip_next_bytes_onecall_n3', 'strip_next_str_onecall_n3'], 'timeout': 900}]},
    'thorough': {'verus': ['strip_scan'], 'kani': [VT_TABLE, VT_UNPACK,
        {'crate': 'anstream', 'harnesses': STRIP_LEAVES + ['strip_next_bytes_onecall_n5', 'strip_next_str_onecall_n4'], 'timeout': 3000}]},
    'bounded': {'strip_next_bytes_onecall_n3': 'twin of the Verus proof on the un-desugared function: one call, inputs <= 3 bytes, any carried state',
                'strip_next_str_onecall_n3': 'twin of the Verus proof: one call, valid UTF-8 inputs <= 3 bytes; also discharges valid-UTF-8-piece (C04) for that bound',
                'strip_next_bytes_onecall_n5': 'as n3 with inputs <= 5 bytes', 'strip_next_str_onecall_n4': 'as n3 with inputs <= 4 bytes'},
    'assumptions': ['std Iterator::position / iter().copied() semantics (rule E8a desugaring), cross-checked by the bounded Kani twins on the un-desugared functions',
                    'utf8parse crate: behaviour of Parser::advance as compiled by Kani (trace-equivalence with S5 is proved, complete)'],
    'explanation': 'Verus proves for inputs of any length and any carried state that one call of next_bytes/next_str returns exactly the next maximal run of model-visible bytes as a sub-slice, leaves the rest, and carries the model state; leaves (table, predicates, UTF-8 accumulator) are discharged completely by Kani.',
}

PARSE_LEAVES = {'crate': 'anstyle-parse', 'harnesses': ['vt_table_state_change_eq_spec', 'vt_table_try_from', 'parse_osc_dispatch_slices'], 'timeout': 900}
PROPS['C02'] = {
    'level': 'proof',
    'functions': ['anstyle_parse::Parser::{advance,process_utf8,perform_state_change,perform_action,osc_dispatch,params,intermediates}',
                  'anstyle_parse::Params::{len,is_empty,is_full,clear,push,extend}', 'anstyle_parse::ParamsIter::{new,next}',
                  'anstyle_parse::state::{state_change,state_change_,unpack}', 'TryFrom<u8> for State/Action'],
    'quick': {'verus': ['parse_core'], 'kani': [PARSE_LEAVES, VT_UNPACK]},
    'thorough': {'verus': ['parse_core'], 'kani': [PARSE_LEAVES, VT_UNPACK]},
    'bounded': {'parse_osc_dispatch_slices': 'unsafe leaf osc_dispatch: all parameter counts 0..=16 and all bounds tables, payload <= 6 bytes'},
    'assumptions': ['Perform is caller code: each callback is specified to append exactly one event to a ghost log (rule E6)',
                    'CharAccumulator is specified as a deterministic step function (rule E6); for Utf8Parser see C01 strip_utf8_add_eq_s5 / utf8parse crate',
                    'L-stream (drive: a loop over advance yields model_run, any length) and L-cancel (lemma_cancel + the same_future bisimulation, one lemma per state) are mechanised in the same unit; L-cancel excludes the Utf8 pseudo-state, where CAN/SUB are bytes fed to the caller-chosen accumulator (for Utf8Parser: S5 finishes the character on any non-continuation byte)'],
    'explanation': 'Verus proves that one call of the real Parser::advance refines one step of the S2 model (and, by the verified driver loop, that any stream yields the model run; after CAN/SUB the future equals that of an empty parser) (Williams parser + documented limits) for every well-formed parser state and every byte: same events in the same order with the same arguments, representation invariants of Params/OSC bookkeeping preserved; the 16x256 table equals S1 and the unsafe leaves are discharged by Kani.',
}
SGR_FRAME = ['sgr_extract_frame_ground', 'sgr_extract_frame_esc', 'sgr_extract_frame_csi_param', 'sgr_extract_frame_csi_colon', 'sgr_extract_frame_osc', 'sgr_extract_frame_utf8']
PROPS['C03'] = {
    'level': 'proof',
    'functions': ['anstream::adapter::strip::{next_bytes,next_str}', 'anstream::strip::{write,write_all}', 'anstream::adapter::wincon::WinconBytes::extract_next (frame)'],
    'quick': {'verus': ['strip_scan', 'strip_fold'], 'kani': [
        {'crate': 'anstream', 'harnesses': STRIP_LEAVES + SGR_FRAME, 'timeout': 900, 'jobs': 6}]},
    'thorough': {'verus': ['strip_scan', 'strip_fold'], 'kani': [
        {'crate': 'anstream', 'harnesses': STRIP_LEAVES + SGR_FRAME + ['strip_next_bytes_onecall_n3', 'strip_next_str_onecall_n3'], 'timeout': 3000, 'jobs': 6}]},
    'bounded': {'strip_next_bytes_onecall_n3': 'twin, inputs <= 3 bytes', 'strip_next_str_onecall_n3': 'twin, inputs <= 3 bytes',
                **{h: 'carried parser state fixed by a concrete prefix (see harness name), style symbolic, chunk of 0-2 symbolic bytes' for h in SGR_FRAME}},
    'assumptions': ['styled-run extractor: the parser consumes one byte per step from a carried state (one-step refinement, C02), next_bytes feeds every byte exactly once and carries style and pending text (C07 run-emission harnesses), and WinconBytes::extract_next leaves the carried parser state and style untouched at a chunk boundary (frame harnesses here: six carried states reached by concrete prefixes — bounded sample); no whole-input fold lemma is mechanised for the extractor as it is for the strip adapters',
                    'std Iterator::position semantics (rule E8a)'],
    'explanation': 'The one-call scan contracts are stated for an arbitrary carried state and pin the carried state after the call to the model state at the cut; the spec-level fold lemmas (unit strip_fold) then give visible(a ++ b) == visible(a) ++ visible-from-carried-state(b) for every cut, including cuts inside escape sequences and (byte API) inside characters.',
}
PROPS['C04'] = {
    'level': 'proof',
    'functions': ['every function of units parse_core, strip_scan, lossy (Verus checks overflow, bounds, unwrap on all of them)', 'anstyle_parse::state::unpack (transmute)',
                  'anstyle_parse::Parser::osc_dispatch (MaybeUninit)', 'anstream::adapter::strip::from_utf8_unchecked via next_str', 'anstyle::color::DisplayBuffer',
                  'anstyle_git::parse_color (string slicing on untrusted words)', 'anstyle_ls::parse code loop (pop_front().unwrap() chains)'],
    'quick': {'verus': ['parse_core', 'strip_scan', 'lossy'], 'kani': [PARSE_LEAVES, VT_UNPACK,
        {'crate': 'anstream', 'harnesses': ['strip_next_str_onecall_n3'], 'timeout': 900},
        {'crate': 'anstyle', 'harnesses': ['render_write_code_all', 'render_buffer_rgb_fg'], 'timeout': 900, 'fmt_direct': True},
        {'crate': 'anstyle-git', 'harnesses': ['git_color_hash6', 'git_color_hash_non_ascii'], 'timeout': 900, 'mem_gb': 10},
        {'crate': 'anstyle-ls', 'harnesses': ['ls_codes_2'], 'timeout': 900, 'mem_gb': 10}]},
    'thorough': {'verus': ['parse_core', 'strip_scan', 'lossy'], 'kani': [PARSE_LEAVES, VT_UNPACK,
        {'crate': 'anstyle-git', 'harnesses': ['git_color_word_n4', 'git_color_hash6', 'git_color_hash_non_ascii', 'git_color_names'], 'timeout': 1500, 'mem_gb': 10},
        {'crate': 'anstyle-ls', 'harnesses': ['ls_codes_2', 'ls_codes_3', 'ls_ext_rgb_38'], 'timeout': 3000, 'mem_gb': 12},
        {'crate': 'anstream', 'harnesses': ['strip_next_str_onecall_n4', 'strip_next_bytes_onecall_n5'], 'timeout': 3000},
        {'crate': 'anstyle', 'harnesses': ['render_write_code_all', 'render_buffer_ansi16', 'render_buffer_ansi256', 'render_buffer_rgb_fg', 'render_buffer_rgb_bg', 'render_buffer_rgb_underline'], 'timeout': 1800, 'fmt_direct': True}]},
    'bounded': {'strip_next_str_onecall_n3': 'valid-UTF-8 piece obligation of from_utf8_unchecked: all valid UTF-8 inputs <= 3 bytes (4 in thorough)',
                'parse_osc_dispatch_slices': 'payload <= 6 bytes',
                'git_color_hash6': '`#` + six bytes over an 8-symbol hex/non-hex alphabet', 'git_color_hash_non_ascii': 'five concrete `#` words with multi-byte characters at component boundaries',
                'git_color_word_n4': 'every UTF-8 word of up to 4 bytes', 'git_color_names': 'twelve concrete words',
                'ls_codes_2': 'two codes, all values', 'ls_codes_3': 'three codes, all values', 'ls_ext_rgb_38': '38;2;r;g;b with all colour values'},
    'assumptions': ['NOT covered: anstyle-svg and anstyle-roff converters, the anstyle_ls::parse tokeniser, the word loop of anstyle_git::parse (string/alloc code outside both tools, see C11/C12/C14/C15); covered from those crates: parse_color (panic-freedom of the `#` slicing, bounded) and the LS code-application loop (bounded)',
                    'valid-UTF-8-ness of text pieces is proved structurally in Verus (pieces start and end on non-continuation bytes) and bounded-checked with from_utf8 by Kani'],
    'explanation': 'Safety side-conditions of the verified units: Verus discharges no-overflow / in-bounds / unwrap obligations for every extracted function for all inputs; Kani checks the unsafe leaves (transmute for all 256 values, MaybeUninit slices, from_utf8_unchecked) and the 19-byte display buffer.',
}
C06_QUICK = ['stream_write_plumbing_interrupted', 'stream_write_plumbing_wouldblock', 'stream_write_plumbing_other', 'stream_write_all_plumbing', 'stream_method_write_once', 'stream_method_vectored_once', 'stream_method_write_all_once', 'stream_method_flush_once']
C06_FMT = {'crate': 'anstream', 'harnesses': ['stream_write_fmt_plumbing', 'stream_write_fmt_formatter_error'], 'timeout': 1500, 'flags': ['-Z', 'stubbing', '-Z', 'restrict-vtable'], 'mem_gb': 12, 'io_error_unwind': 2, 'tag': 'rv'}
PROPS['C06'] = {
    'level': 'proof',
    'functions': ['anstream::strip::{write,write_all,write_fmt,offset_to}', 'impl Write for StripStream (write, write_vectored, flush, write_all, write_fmt)', 'anstream::fmt::Adapter (thorough)'],
    'quick': {'verus': ['strip_scan', 'strip_fold'], 'kani': [
        {'crate': 'anstream', 'harnesses': C06_QUICK + C06_FMT['harnesses'], 'timeout': 1500, 'flags': ['-Z', 'stubbing', '-Z', 'restrict-vtable'], 'mem_gb': 12, 'io_error_unwind': 2, 'tag': 'rv'}]},
    'thorough': {'verus': ['strip_scan', 'strip_fold'], 'kani': [
        {'crate': 'anstream', 'harnesses': C06_QUICK + C06_FMT['harnesses'], 'timeout': 3000, 'flags': ['-Z', 'stubbing', '-Z', 'restrict-vtable'], 'mem_gb': 12, 'io_error_unwind': 2, 'tag': 'rv'}]},
    'assumptions': ['modular: next_bytes is replaced by a recording stand-in returning an arbitrary answer of the shape its verified contract guarantees (verus:strip_scan::next_bytes); buffers up to 4 bytes (write never inspects byte values)',
                    'fmt::Adapter / write_fmt are verified against an UNINTERPRETED formatter: core::fmt::write is replaced (Kani stub) by a stand-in with the shape of its documented contract (the text arrives as write_str calls in order — two fixed fragments —, the first write_str error stops it and is returned; a second stand-in models a formatting trait failing on its own). What core::fmt::write renders for given arguments is std: assumed',
                    'the inner writer honours the Write contract (returns n <= buf.len())'],
    'explanation': 'Kani verifies write/write_all against the scanner contract for every carried state, every scanner answer and every inner-writer outcome (accept any prefix, fail with Interrupted/WouldBlock/Other): exactly one inner write per call, the reported count ends at the last accepted visible byte, the state is replayed over exactly the consumed prefix from the entry state, errors surface with their kind and leave state and delivery untouched. Verus (strip_scan + strip_fold) supplies what the routed pieces and states mean.',
}

SGR_SHAPES_Q = ['sgr_shape_one', 'sgr_shape_2_semi', 'sgr_shape_2_colon', 'sgr_shape_3_semis', 'sgr_shape_3_colons', 'sgr_shape_3_colon_semi',
                'sgr_shape_4_semi', 'sgr_shape_5_semi', 'sgr_shape_10_semi', 'sgr_print_execute', 'sgr_to_ansi_color']
SGR_EMISSION = ['sgr_run_emission_2_plain', 'sgr_run_emission_2_bold', 'sgr_run_emission_3_plain', 'sgr_run_emission_3_bold']
SGR_SHAPES_T = SGR_SHAPES_Q + ['sgr_shape_3_semi_colon', 'sgr_shape_4_colon3_semi', 'sgr_shape_5_colon', 'sgr_shape_6_semi']
PROPS['C07'] = {
    'level': 'model_checking',
    'functions': ['anstream::adapter::wincon::WinconCapture::{csi_dispatch,print,execute,reset}', 'anstream::adapter::wincon::to_ansi_color',
                  'anstream::adapter::wincon::next_bytes (run emission)', 'anstream::adapter::wincon::WinconBytes::extract_next (frame)',
                  'via C02: anstyle_parse::Parser::advance (the events csi_dispatch receives)'],
    'quick': {'kani': [{'crate': 'anstream', 'harnesses': SGR_SHAPES_Q + SGR_FRAME, 'timeout': 1500, 'mem_gb': 8, 'jobs': 8},
                       {'crate': 'anstream', 'harnesses': SGR_EMISSION[:2], 'timeout': 1500, 'mem_gb': 8, 'jobs': 3, 'flags': ['-Z', 'stubbing'], 'tag': 'em'}]},
    'thorough': {'kani': [{'crate': 'anstream', 'harnesses': SGR_SHAPES_T + SGR_FRAME, 'timeout': 3000, 'mem_gb': 8, 'jobs': 8},
                          {'crate': 'anstream', 'harnesses': SGR_EMISSION, 'timeout': 3000, 'mem_gb': 12, 'jobs': 4, 'flags': ['-Z', 'stubbing'], 'tag': 'em'}]},
    'bounded': {**{h: 'parameter-list shape fixed (see harness name: number of values and which are joined by `:`), values and entry style fully symbolic' for h in SGR_SHAPES_T if h.startswith('sgr_shape')},
                **{h: 'carried parser state fixed by a concrete prefix (see harness name), style symbolic, chunk of 0-2 symbolic bytes' for h in SGR_FRAME},
                **{h: 'chunk of 2 or 3 bytes (see harness name), each byte an arbitrary one of six parser events, styles plain/bold' for h in SGR_EMISSION}},
    'rule': 'one case = one parameter-list shape (count of values and ;/: pattern) verified for all 2^16 values per position x all entry styles x ignore flag x final byte x pending text; non-trivial = harness verified and its cover (a defined sequence that changes the style) reached',
    'assumptions': ['S4 (spec/sgr.rs) is the reference; codes the statement does not list (5, 22-29, 59) and groups the standards leave open (38 followed by neither 5 nor 2, values > 255, 4:n when another underline kind is already set) are unconstrained',
                    'Params are built through Params::push/extend exposed by an append-only cfg(kani) hook in the scratch copy of anstyle-parse; that the parser builds them so from bytes is C02',
                    'next_bytes (run emission) is verified with Parser::advance REPLACED by an uninterpreted event source (per byte an arbitrary one of: nothing, print, execute(LF), SGR 1, SGR 0, non-SGR CSI, performed through the real Perform impl; appended to the scratch copy of anstyle-parse as Parser::verif_advance_standin because Kani cannot stub a method of a generic impl by a free function): chunks of 2 bytes (quick) / 3 bytes (thorough), two styles (plain, bold) — bounded; that the real parser raises the right events for given bytes is C02',
                    'extract_next is verified as a frame condition from six carried parser states reached with concrete prefixes (ground, ESC, CSI parameters, CSI after a colon, OSC string, inside a 3-byte character): bounded sample of states, symbolic style and chunk (0-2 bytes)',
                    'WinconBytesIter::next is a one-line forward to next_bytes (read, not harnessed)'],
    'explanation': 'csi_dispatch is verified against the S4 SGR semantics for enumerated parameter-list shapes with symbolic values: bounded in shape, complete in values and entry style. next_bytes cuts the text into runs exactly where the style in effect changes while text is pending, tags each run with the style in effect when it was printed, loses nothing and carries the style (against an uninterpreted event source); extract_next leaves parser state and style untouched.',
}

AUTO_C09 = {'crate': 'anstream', 'harnesses': ['auto_choice_precedence'], 'timeout': 900, 'flags': ['-Z', 'stubbing']}
PROPS['C09'] = {
    'level': 'proof',
    'functions': ['anstream::auto::choice', 'AutoStream::{choice,auto}', 'anstyle_query::{clicolor,clicolor_force,no_color,term_supports_color,term_supports_ansi_color,truecolor,is_ci,non_empty}',
                  'colorchoice_clap::Color::as_choice', 'colorchoice::AtomicChoice::{from_choice,to_choice,get,set,new}', 'ColorChoice::{global,write_global,default}'],
    'quick': {'kani': [AUTO_C09,
        {'crate': 'anstyle-query', 'harnesses': ['query_no_color', 'query_clicolor_force', 'query_clicolor_plain', 'query_term', 'query_truecolor', 'query_ci'], 'timeout': 900, 'flags': ['-Z', 'stubbing']},
        {'crate': 'colorchoice', 'harnesses': ['choice_encoding_total'], 'timeout': 600},
        {'crate': 'colorchoice-clap', 'harnesses': ['clap_flag_mapping'], 'timeout': 900}]},
    'assumptions': ['modular: choice() is verified against free values for its seven inputs (global choice, five probes, is_terminal) — complete over all 384 combinations',
                    'each probe is verified against a replaced std::env::var_os over nine candidate values (unset, "", "0", "1", "dumb", "xterm-256color", "truecolor", "24bit", "true") — bounded in content',
                    'the process environment and isatty (is_terminal_polyfill) are the operating system boundary: assumed'],
    'explanation': 'The precedence chain of the statement is the postcondition of choice() with every callee replaced by its contract (Kani stubs); the probes and the flag/atomic encodings are verified separately.',
    'bounded': {h: 'variable content drawn from nine candidate strings' for h in ['query_no_color', 'query_clicolor_force', 'query_clicolor_plain', 'query_term', 'query_truecolor', 'query_ci']},
}
PROPS['C09']['thorough'] = PROPS['C09']['quick']
PROPS['C08'] = {
    'level': 'model_checking',
    'functions': ['AutoStream::{new,auto,always_ansi,always_ansi_,always,never,into_inner,current_choice,choice}', 'impl Write for AutoStream (write, write_vectored, flush, write_all, write_fmt)'],
    'quick': {'kani': [
        {'crate': 'anstream', 'harnesses': ['auto_new_never', 'auto_new_ansi_always', 'auto_new_always', 'auto_pass_one_write', 'auto_pass_all_write', 'auto_pass_vectored_write', 'auto_pass_flushes', 'auto_routed_one_write', 'auto_routed_all_write', 'auto_routed_vectored_write', 'auto_routed_flushes', 'auto_routed_write_fmt', 'lock_write_fmt_once_pass'], 'timeout': 1500, 'flags': ['-Z', 'stubbing', '-Z', 'restrict-vtable'], 'mem_gb': 12, 'io_error_unwind': 2, 'tag': 'rv'}]},
    'rule': 'one case = one harness over all colour choices / all four Write methods / symbolic buffers of <= 3 bytes; non-trivial = verified',
    'bounded': {**{h: 'one call of one method on a symbolic 2-byte buffer (every call is stateless in pass-through mode)' for h in ['auto_pass_one_write', 'auto_pass_all_write', 'auto_pass_vectored_write', 'auto_pass_flushes']},
                **{h: 'one call of one method on a 2-byte buffer, scanner replaced by its recording stand-in, counting writer; that the call reaches the stripper with the right buffer under one lock is what is checked, StripStream itself is C06' for h in ['auto_routed_one_write', 'auto_routed_all_write', 'auto_routed_vectored_write', 'auto_routed_flushes']}},
    'assumptions': ['write_fmt: with core::fmt::write replaced by the uninterpreted two-fragment formatter (see C06), the pass-through arm delivers the fragments unchanged (lock_write_fmt_once_pass) and the Never arm hands both fragments in place, in order, to the stream\'s own stripper with the state carried (auto_routed_write_fmt); what the stripper delivers is C06; to_adapted_string is not covered',
                    'the Never arm is verified to route through StripStream (C06 verifies that stream); the Windows console arm is outside the claim',
                    'inner writers other than the in-crate mock (Vec<u8>, Box<dyn Write>, File) are assumed to behave alike (the code is generic in S)'],
    'explanation': 'Constructor dispatch for all choices, the reported mode, byte-identical forwarding in pass-through mode and routing of the Never mode through the strip stream, all through one lock acquisition per call.',
}
PROPS['C08']['thorough'] = {'kani': [dict(PROPS['C08']['quick']['kani'][0], harnesses=PROPS['C08']['quick']['kani'][0]['harnesses'] + [
    'auto_new_dispatch', 'auto_passthrough_forwards'], timeout=3000)]}
# not registered (CBMC: > 16 min, 7-9 GB each, also with the io::Error recursion limit): auto_never_is_strip_stream,
# auto_auto_uses_choice, auto_never_{one_write,all_write,vectored_write,flushes} (real scanner, scripted mock)

PROPS['C12'] = {
    'level': 'model_checking',
    'functions': ['anstyle_ls::parse — the code-application loop (everything after the tokenising statement), cut verbatim (rule E9)', 'anstyle_ls::parse as a whole (concrete strings only)'],
    'quick': {'kani': [{'crate': 'anstyle-ls', 'harnesses': ['ls_codes_1', 'ls_codes_2', 'ls_ext_idx_38', 'ls_ext_idx_48', 'ls_ext_idx_58', 'ls_ext_rgb_38', 'ls_ext_rgb_48', 'ls_ext_rgb_58', 'ls_text_no_style', 'ls_text_rejects', 'ls_text_accepts'], 'timeout': 1500, 'mem_gb': 10, 'flags': ['-Z', 'restrict-vtable'], 'io_error_unwind': 2}]},
    'thorough': {'kani': [{'crate': 'anstyle-ls', 'harnesses': ['ls_codes_1', 'ls_codes_2', 'ls_ext_idx_38', 'ls_ext_idx_48', 'ls_ext_idx_58', 'ls_ext_rgb_38', 'ls_ext_rgb_48', 'ls_ext_rgb_58', 'ls_codes_3', 'ls_codes_5', 'ls_text_no_style', 'ls_text_rejects', 'ls_text_accepts'], 'timeout': 3000, 'mem_gb': 12, 'flags': ['-Z', 'restrict-vtable'], 'io_error_unwind': 2}]},
    'bounded': {'ls_codes_1': 'lists of one code, all 256 values', 'ls_codes_2': 'two codes, all values', 'ls_codes_3': 'three codes, all values (covers 38;5;n)',
                'ls_codes_5': 'five codes, all values (covers 38;2;r;g;b)', **{h: 'introducer and form concrete, colour values symbolic (all 256 / 2^24), followed by code 1' for h in ['ls_ext_idx_38', 'ls_ext_idx_48', 'ls_ext_idx_58', 'ls_ext_rgb_38', 'ls_ext_rgb_48', 'ls_ext_rgb_58']},
                **{h: 'the whole of parse on concrete strings' for h in ['ls_text_no_style', 'ls_text_rejects', 'ls_text_accepts']}},
    'rule': 'one case = one list length with all 256^n code values; non-trivial = verified with a style-changing list reached',
    'assumptions': ['the tokenising statement (split, u8::from_str, collect into VecDeque) and the early return for "", "0", "00" are covered on fifteen CONCRETE strings only (ls_text_*: the three no-style strings, eight malformed lists, four well-formed ones) by running the whole of parse; a symbolic 3-byte string does not finish in CBMC (> 8 min, > 6 GB). So "rejects anything that is not a list of numbers" is sampled, not proved',
                    'lists longer than six codes are not explored; 38/48/58 not followed by 5;n or 2;r;g;b (truncated or malformed groups) are outside the statement and unconstrained',
                    'std VecDeque::pop_front as compiled by Kani'],
    'explanation': 'The loop that applies the codes is cut verbatim out of parse (extractor rule E9) and run by Kani on queues of 1-6 symbolic codes against the statement\'s left-to-right semantics; bounded in list length, complete in values.',
}

GIT_WORDS = ['git_words_separators_0', 'git_words_separators_1', 'git_words_separators_2', 'git_words_separators_3', 'git_words_separators_4', 'git_words_blank', 'git_words_attr_bold', 'git_words_attr_dim', 'git_words_attr_ul', 'git_words_attr_blink', 'git_words_attr_reverse', 'git_words_attr_italic', 'git_words_attr_strike', 'git_words_case', 'git_words_colour_slots', 'git_words_errors']
PROPS['C11'] = {
    'level': 'model_checking',
    'functions': ['anstyle_git::parse_color', 'anstyle_git::parse (word loop: run on concrete descriptions only)'],
    'quick': {'kani': [{'crate': 'anstyle-git', 'harnesses': ['git_color_word_n4', 'git_color_hash6', 'git_color_hash_non_ascii', 'git_color_names'] + GIT_WORDS, 'timeout': 1500, 'mem_gb': 10, 'jobs': 16, 'flags': ['-Z', 'restrict-vtable'], 'io_error_unwind': 2}]},
    'bounded': {'git_color_word_n4': 'every UTF-8 word of up to 4 bytes', 'git_color_hash6': '`#` + six bytes over an 8-symbol hex/non-hex alphabet (all 262144 words)',
                'git_color_hash_non_ascii': 'five concrete words', 'git_color_names': 'twelve concrete words',
                **{h: 'the word loop of parse on concrete descriptions: each of the 25 Unicode White_Space characters as separator; blank / padded input; each of the seven attributes alone, negated both ways, and in both orders with its negation; mixed letter case; colour slots; extra-colour and unknown-word errors naming the word as written' for h in GIT_WORDS}},
    'rule': 'one case = one word family (all UTF-8 words <= 4 bytes; all #-words over the alphabet; concrete names; concrete descriptions for the word loop); non-trivial = verified with covers reached',
    'assumptions': ['the word loop of anstyle_git::parse (split_whitespace, to_lowercase, attribute keywords, colour counter, error values) is covered on about ninety CONCRETE descriptions only (symbolic strings through std\'s Unicode tables and allocation do not finish in CBMC): a sample, not a proof — single-edit mutations, all two-word combinations and arbitrary Unicode of the statement\'s quantifier are not explored',
                    'the value of a three-digit `#rgb` colour and decimals written with a leading `+` are outside the statement and unconstrained',
                    'the print-and-reparse round trip is not covered'],
    'explanation': 'Kani checks parse_color against the documented colour syntax (S7) for every UTF-8 word up to 4 bytes, every `#`+6 word over a hex/non-hex alphabet, and the names; no panic on any of them. The word loop of parse (separators, case, attributes and negations, colour slots, the two error kinds) is run on concrete descriptions.',
}
PROPS['C11']['thorough'] = PROPS['C11']['quick']

C17_H = ['wincon_ansi_fg_0_3', 'wincon_ansi_fg_4_7', 'wincon_ansi_fg_8_11', 'wincon_ansi_fg_12_15', 'wincon_ansi_bg_0_3', 'wincon_ansi_bg_4_7', 'wincon_ansi_bg_8_11', 'wincon_ansi_bg_12_15',
         'wincon_ansi_none', 'wincon_ansi_both_a', 'wincon_ansi_both_b', 'wincon_ansi_both_c', 'wincon_ansi_both_d', 'wincon_ansi_fail_both', 'wincon_ansi_fail_single']
PROPS['C17'] = {
    'level': 'model_checking',
    'functions': ['anstyle_wincon::ansi::write_colored (cut verbatim; std `write!` bound to its documented meaning, rule E10)'],
    'quick': {'kani': [{'crate': 'anstyle-wincon', 'harnesses': C17_H, 'timeout': 1500, 'mem_gb': 8, 'jobs': 15, 'fmt_direct': True, 'flags': ['-Z', 'restrict-vtable'], 'io_error_unwind': 2}]},
    'bounded': {h: 'concrete colour pairs (every colour alone in each slot, no colour, sixteen two-colour pairs with every colour once per slot; every failure point for a two-colour, a one-colour and a no-colour write); data 1-2 symbolic bytes, any prefix of the data accepted' for h in C17_H},
    'rule': 'one case = one concrete colour pair and failure point x all data bytes x all accepted prefixes; non-trivial = verified with short-write / full-write / error witnesses reached',
    'assumptions': ['std `write!(stream, ..)` on an io::Write renders the arguments, write_all()s the bytes and returns the I/O error (documented behaviour of io::Write::write_fmt; CBMC does not finish on the std implementation itself)', 'trait impls for Vec<u8>, File, dyn Write, stdio and their locks forward to the same function (one-line forwards, not harnessed)', 'S4 (spec/sgr.rs) as SGR reference',
                    'quick tier: 240 of the 256 two-colour pairs are not run (the function treats the two slots independently; with symbolic colours CBMC reports a spurious failure, see DESIGN 8.23); thorough tier: all 17 x 17 pairs x all five failure points (100 harnesses, 25 min); all 17 x 17 x 5 cases also pass natively (wincon_ansi_native_all_pairs in the replay build)',
                    '"stripping it gives back the data" follows from C01 for pure-SGR codes (the codes are shown to be pure SGR by the S4 reading); not re-run here'],
    'explanation': 'Kani checks write_colored against a scripted writer: exact call sequence (fg code, bg code, one plain write of the caller\'s slice, reset; stops at the first error), every code read through S4 on the running terminal state (pure SGR, selects exactly the requested colour, reset restores the default), returned count is what the writer accepted for the data, inner errors surface.',
}
C17_ROWS = [f'wincon_ansi_row_{tag}_fg{fg:02d}' for tag in ('ok', 'f0', 'f1', 'f2', 'f3') for fg in range(17)]
PROPS['C17']['thorough'] = {'kani': [dict(PROPS['C17']['quick']['kani'][0], harnesses=C17_H + C17_ROWS, timeout=3000, jobs=16)]}
PROPS['C17']['bounded'].update({h: 'one row of the 17 x 17 pair table (all 17 background choices for one foreground choice) at one failure point; with the other rows: every pair x every failure point; data 1-2 symbolic bytes, any accepted prefix' for h in C17_ROWS})

PROPS['C20'] = {
    'level': 'proof',
    'functions': ['anstyle_parse::Parser::{advance,process_utf8,perform_state_change,perform_action} in the feature sets {utf8} (default), {core,utf8}, {core}, {}',
                  'spec lemmas lemma_cap_irrelevant_step, lemma_full_buffer_drops, lemma_seven_bit_no_utf8'],
    'quick': {'verus': ['parse_core', 'parse_core+core,utf8'], 'kani': [PARSE_LEAVES, VT_UNPACK]},
    'thorough': {'verus': ['parse_core', 'parse_core+core,utf8', 'parse_core+core', 'parse_core+'], 'kani': [PARSE_LEAVES, VT_UNPACK]},
    'bounded': {'parse_osc_dispatch_slices': 'default feature set only, payload <= 6 bytes'},
    'assumptions': ['arrayvec::ArrayVec (core feature) is represented by a stand-in with the documented contract of len/is_full/push/clear (push requires !is_full): ASSUMED, arrayvec itself is not verified',
                    'the same S2 model is the postcondition in every feature set, with the OSC capacity (None / 1024) as its only parameter; the CharAccumulator is abstract, so AsciiParser vs Utf8Parser cannot matter where it is never called (lemma_seven_bit_no_utf8)',
                    'osc_dispatch over an ArrayVec payload is the same unsafe code; its Kani leaf runs in the default feature set only'],
    'explanation': 'The one-step refinement of Parser::advance is re-proved by Verus on the text extracted under each feature set against the same model; spec-level lemmas show the capacity is unobservable while payloads fit, that a full buffer drops payload bytes and separators and nothing else, and that 7-bit input never reaches the UTF-8 accumulator.',
}

WINCON_WA_SCRIPTED = ['wincon_write_all_s_none', 'wincon_write_all_s_two_plain', 'wincon_write_all_s_short_then_rest', 'wincon_write_all_s_short_both', 'wincon_write_all_s_interrupted_twice', 'wincon_write_all_s_error_second', 'wincon_write_all_s_error_after_short', 'wincon_write_all_s_zero_after_short', 'wincon_write_all_s_zero_first']
PROPS['C18'] = {
    'level': 'model_checking',
    'functions': ['anstream::wincon::{write,write_all,cap_wincon_color} (cut verbatim from the working tree and compiled on this platform)'],
    'quick': {'kani': [{'crate': 'anstream', 'harnesses': ['wincon_cap_color', 'wincon_write_reports_progress'] + WINCON_WA_SCRIPTED, 'timeout': 2400, 'mem_gb': 12, 'jobs': 6, 'flags': ['-Z', 'stubbing', '-Z', 'restrict-vtable'], 'io_error_unwind': 2, 'tag': 'rv'}]},
    'bounded': {'wincon_write_reports_progress': 'the styled-run extractor replaced by a recording stand-in yielding 0-2 runs with arbitrary fg/bg colours and 1-2 byte texts; at most one misbehaving console call (any prefix, zero, Interrupted, Other)',
                **{h: 'one concrete extractor answer and console script (see harness name), colours symbolic' for h in WINCON_WA_SCRIPTED}},
    'rule': 'one case = one harness over all extractor answers (<= 2 runs) x all console scripts (<= 2 faults); non-trivial = verified with covers reached',
    'assumptions': ['modular: which runs the extractor yields for a given input (visible text in order, no escape byte, style in effect) is C02 + C07; here write/write_all are verified to hand over exactly the runs they are given',
                    'write_all (retry loop: each run handed over exactly once, Interrupted retried, WriteZero): the SYMBOLIC harnesses (wincon_write_all_plumbing, _single_run, _nonzero, _online; kept in the source) do not finish in CBMC (> 15-30 min, 4-10 GB) in any shape tried, also not with the io::Error recursion limit. It is checked on nine SCRIPTED cases (wincon_write_all_s_*): number of runs (0-2), text lengths and every console outcome concrete (accept all / one byte / Interrupted / Other / nothing, up to four calls), colours symbolic — a bounded sample, not a proof',
                    'impl Write for WinconStream, write_fmt and write_vectored only compile on Windows and are not covered'],
    'explanation': 'The platform-independent functions of the console stream are extracted verbatim; cap_wincon_color is verified completely, `write` against an uninterpreted run extractor and a recording console whose every call may accept any prefix, nothing, or fail; `write_all` on nine scripted extractor/console cases with an online-checking console (each call offers exactly the not-yet-accepted rest of the current run with capped colours, no new run before the previous one is complete, exact number of calls, fatal outcomes surface with their kind).',
}
PROPS['C18']['thorough'] = PROPS['C18']['quick']

PROPS['C19'] = {
    'level': 'other',
    'functions': ['impl Write for StripStream / AutoStream (write, write_vectored, flush, write_all, write_fmt): lock acquisitions per call',
                  'colorchoice::AtomicChoice::{new,get,set,from_choice,to_choice}'],
    'quick': {'kani': [
        {'crate': 'anstream', 'harnesses': ['stream_method_write_once', 'stream_method_vectored_once', 'stream_method_write_all_once', 'stream_method_flush_once', 'auto_pass_one_write', 'auto_pass_all_write', 'auto_pass_vectored_write', 'auto_pass_flushes', 'auto_routed_one_write', 'auto_routed_all_write', 'auto_routed_vectored_write', 'auto_routed_flushes', 'lock_write_fmt_once_pass', 'lock_write_fmt_once_strip'], 'timeout': 1500, 'flags': ['-Z', 'stubbing', '-Z', 'restrict-vtable'], 'mem_gb': 12, 'io_error_unwind': 2, 'tag': 'rv'},
        {'crate': 'colorchoice', 'harnesses': ['choice_encoding_total'], 'timeout': 600}]},
    'explanation': 'REDUCED FORM, no schedule is explored: neither Verus (without its permission types) nor Kani models threads. What is verified is the sequential sufficient condition the code relies on: every Write method of StripStream and AutoStream acquires the inner lock exactly once and performs all inner writes through that guard (so one print!/write_all/write_fmt call is one critical section of StdoutLock), and the atomic colour choice is a total, injective encoding whose get cannot panic. That one critical section is not interleaved, and that AtomicUsize with SeqCst behaves as an atomic register, are std contracts: ASSUMED.',
    'assumptions': ['std::io::StdoutLock / StderrLock give mutual exclusion for the lifetime of the guard (std contract, assumed)',
                    'AtomicUsize load/store with SeqCst are linearizable (std contract, assumed)',
                    'the print macros expand to one write_fmt call on anstream::stdout()/stderr() (read off _macros.rs, not verified)',
                    'write_fmt is verified with core::fmt::write replaced by an uninterpreted two-fragment formatter (see C06): one lock acquisition for all fragments; what std renders for given arguments is assumed'],
}
PROPS['C19']['thorough'] = PROPS['C19']['quick']
