"""Property -> units / harnesses / level.  One entry per *claimed* property."""

TRUSTED_BASE = [
    'rustc/LLVM semantics as modelled by Verus (VIR) and Kani (MIR->goto)',
    'Z3 (bundled with Verus 0.2026.09.13) and CBMC 6.11 with its SAT back end',
    'vstd specifications of std (slices, arrays, Option, integer ops)',
    'tools/extract.py rules E1-E9 (lexer, attribute/visibility/derive rewriting, contract splice, two desugarings)',
    'spec/*.rs text is transcribed identically into Verus units and Kani harness crates (mechanical rewrite `spec fn` -> `fn`)',
]

PROPS = {}

PROPS['C10'] = {
    'level': 'proof',
    'functions': [
        'anstyle_lossy::distance', 'anstyle_lossy::find_xterm_match', 'anstyle_lossy::palette::Palette::find_match',
        'Palette::{get,get_ansi256_ref,rgb_from_ansi,rgb_from_index}', 'anstyle_lossy::{color_to_rgb,color_to_xterm,color_to_ansi,ansi_to_rgb,xterm_to_rgb,xterm_to_ansi,rgb_to_ansi,rgb_to_xterm}',
        'anstyle::{RgbColor::{r,g,b},Ansi256Color::{index,into_ansi,from_ansi}}',
    ],
    'quick': {'verus': ['lossy'], 'kani': [
        {'crate': 'anstyle-lossy', 'harnesses': ['lossy_passthrough_and_low_indices'], 'timeout': 600}]},
    'thorough': {'verus': ['lossy'], 'kani': [
        {'crate': 'anstyle-lossy', 'harnesses': ['lossy_passthrough_and_low_indices', 'lossy_distance_eq_spec'], 'timeout': 1800}]},
    'twins': {'lossy': [{'crate': 'anstyle-lossy', 'harnesses': ['lossy_distance_eq_spec', 'lossy_find_match_vga', 'lossy_find_match_win10'], 'timeout': 300}]},
    'bounded': {'lossy_distance_eq_spec': 'cross-engine twin of the Verus proof of `distance`: c1 symbolic, c2 components in {0,128,255}'},
    'assumptions': [
        'Palette as Index<AnsiColor> / Default / From<RawPalette> trait impls are one-line forwards to functions under contract and are not themselves extracted',
    ],
    'explanation': 'Verus proves, for every colour and every palette content, the argmin/lowest-index postcondition of both scans, '
                   'distance == published red-mean metric (x512) without overflow, and the pass-through/exact-index clauses of all eight conversion functions.',
}

ALG = ['alg_effects_membership', 'alg_effects_set_laws', 'alg_effects_iter', 'alg_effects_debug',
       'alg_style_builders', 'alg_style_convenience', 'alg_color_tables']
PROPS['C13'] = {
    'level': 'proof',
    'functions': ['anstyle::Effects::{new,is_plain,contains,insert,remove,clear,set,iter,index_iter}', 'BitOr/BitOrAssign/Sub/SubAssign/Debug/PartialEq/Default for Effects',
                  'EffectIter::next', 'EffectIndexIter::next',
                  'anstyle::Style::{new,fg_color,bg_color,underline_color,effects,bold,dimmed,italic,underline,blink,invert,hidden,strikethrough,get_*,is_plain}',
                  'BitOr/BitOrAssign/Sub/SubAssign<Effects>, PartialEq<Effects>, From<Effects> for Style',
                  'AnsiColor::{bright,is_bright,on,on_default}', 'Ansi256Color::{into_ansi,from_ansi,index}', 'Color::{on,on_default}, From impls', 'RgbColor::{r,g,b}'],
    'quick': {'kani': [{'crate': 'anstyle', 'harnesses': ALG, 'timeout': 900}]},
    'thorough': {'kani': [{'crate': 'anstyle', 'harnesses': ALG, 'timeout': 1800}]},
    'bounded': {'alg_effects_debug': 'Debug text checked concretely for five representative sets (empty, BOLD, STRIKETHROUGH, UNDERLINE|BLINK, DIMMED|ITALIC|HIDDEN); member order for all 4096 sets from alg_effects_iter (complete)'},
    'assumptions': ['core::fmt machinery (format_args!, Formatter::write_str/pad) as compiled by Kani'],
    'explanation': 'Loop-free or table-length-bounded (12) harnesses over full symbolic domains: complete proofs, except the Debug text which is bounded in set size.',
}

PROPS['C16'] = {
    'level': 'proof',
    'functions': ['anstyle_crossterm::{to_crossterm,to_ansi_color,ansi_to_ansi_color,xterm_to_ansi_color,rgb_to_ansi_color}',
                  'anstyle_ansi_term::{to_ansi_term,to_ansi_color,ansi_to_ansi_color,...}', 'anstyle_owo_colors::{to_owo_style,to_owo_colors,ansi_to_owo_colors_color,...}',
                  'anstyle_termcolor::{to_termcolor_spec,to_termcolor_color,ansi_to_termcolor_color,...}', 'anstyle_yansi::{to_yansi_style,to_yansi_color,ansi_to_yansi_color,...}',
                  'anstyle_syntect::{to_anstyle,to_anstyle_color,to_anstyle_effects}'],
    'quick': {'kani': [
        {'crate': 'anstyle-crossterm', 'harnesses': ['adapt_crossterm'], 'timeout': 600},
        {'crate': 'anstyle-ansi-term', 'harnesses': ['adapt_ansi_term'], 'timeout': 600},
        {'crate': 'anstyle-owo-colors', 'harnesses': ['adapt_owo_color', 'adapt_owo_style'], 'timeout': 600},
        {'crate': 'anstyle-termcolor', 'harnesses': ['adapt_termcolor'], 'timeout': 600},
        {'crate': 'anstyle-yansi', 'harnesses': ['adapt_yansi'], 'timeout': 600},
        {'crate': 'anstyle-syntect', 'harnesses': ['adapt_syntect'], 'timeout': 600},
    ]},
    'assumptions': ['each third-party library renders its own style values into the escape codes its documentation states (the statement\'s "rendering it with that library" step is the library\'s contract, not re-verified)',
                    'expected values are built with the target library\'s public constructors/builders from hue tables written from each library\'s documentation'],
    'explanation': 'Symbolic anstyle::Style (all colours incl. full RGB, all 4096 effect sets) -> converted value compared field-by-field / by PartialEq with an independently built expected value. Loop bound 12 = effect table length: complete.',
}
PROPS['C16']['thorough'] = PROPS['C16']['quick']

NOT_APPLICABLE = {
    'C14': 'whole-document XML/string property through format!, html_escape, unicode-width and BTreeMap: no contract language available here can state well-formedness over String; Verus has no str/format reasoning and Kani does not terminate on this code (DESIGN.md section 6)',
    'C15': 'segmentation is the cansi crate, escaping/rendering the roff crate (opaque Roff type); the repository-own logic is five finite leaf functions that do not decide the statement (DESIGN.md section 6)',
}

REND_CORE = ['render_write_code_all', 'render_buffer_ansi', 'render_buffer_ansi256', 'render_buffer_rgb_fg', 'render_buffer_rgb_bg',
             'render_buffer_rgb_underline', 'render_color_write_paths', 'render_effect_escapes', 'render_effects_concat',
             'render_style_concat', 'render_reset_io']
REND_FMT = ['render_display_eq_s0', 'render_display_eq_s1', 'render_display_eq_s2', 'render_display_eq_s3', 'render_display_eq_s4',
            'render_flags_width_right', 'render_flags_fill_center', 'render_flags_precision', 'render_flags_alt_width',
            'render_flags_alt_precision', 'render_flags_alt_fill_plain', 'render_reset_value']
REND_QUICK = REND_CORE + ['render_display_eq_s2', 'render_flags_width_right', 'render_flags_alt_width', 'render_reset_value']
REND_ALL = REND_CORE + REND_FMT
PROPS['C05'] = {
    'level': 'proof',
    'functions': ['anstyle::color::DisplayBuffer::{write_str,write_code,as_str,write_to}', 'AnsiColor/Ansi256Color/RgbColor::{as_fg_buffer,as_bg_buffer,as_underline_buffer,render_fg,render_bg}',
                  'Color::{render_fg,render_bg,render_underline,write_fg_to,write_bg_to,write_underline_to}', 'Effects::{render,write_to}', 'EffectsDisplay::fmt',
                  'Style::{fmt_to,write_to,render,render_reset,write_reset_to}', 'Display for Style/StyleDisplay/Reset/DisplayBuffer/NullFormatter'],
    'quick': {'kani': [{'crate': 'anstyle', 'harnesses': REND_QUICK, 'timeout': 1500, 'mem_gb': 12}]},
    'thorough': {'kani': [{'crate': 'anstyle', 'harnesses': REND_ALL, 'timeout': 3000, 'mem_gb': 12}]},
    'assumptions': ['core::fmt machinery (format_args!, Formatter::write_str/pad, fmt::write) as compiled by Kani',
                    'S4 (spec/sgr.rs) is the reference SGR interpreter; underline kinds are independent bits (the only reading under which all 4096 effect sets can round-trip)'],
    'explanation': 'Compositional: every colour buffer and every effect escape interprets (S4) to exactly its colour/effect (complete over all values); Style::write_to is the in-order concatenation of those parts for every style (symbolic, complete); Display paths and format flags are compared byte-for-byte on five concrete styles (bounded).',
    'bounded': {h: 'core::fmt path on a concrete sample style (symbolic styles through core::fmt do not finish in CBMC)' for h in REND_FMT},
}

STRIP_LEAVES = ['strip_leaf_predicates', 'strip_utf8_add_eq_s5', 'strip_s5_bounded_depth']
VT_TABLE = {'crate': 'anstyle-parse', 'harnesses': ['vt_table_state_change_eq_spec', 'vt_table_unpack_total'], 'timeout': 600, 'flags': ['-Z', 'valid-value-checks']}
PROPS['C01'] = {
    'level': 'proof',
    'functions': ['anstream::adapter::strip::{next_bytes,next_str,is_printable_bytes,is_utf8_continuation}', 'anstyle_parse::state::{state_change,state_change_,unpack}',
                  'anstream::adapter::strip::Utf8Parser::add'],
    'quick': {'verus': ['strip_scan'], 'kani': [VT_TABLE,
        {'crate': 'anstream', 'harnesses': STRIP_LEAVES + ['strip_next_bytes_onecall_n3', 'strip_next_str_onecall_n3'], 'timeout': 900}]},
    'thorough': {'verus': ['strip_scan'], 'kani': [VT_TABLE,
        {'crate': 'anstream', 'harnesses': STRIP_LEAVES + ['strip_next_bytes_onecall_n5', 'strip_next_str_onecall_n4'], 'timeout': 3000}]},
    'bounded': {'strip_next_bytes_onecall_n3': 'twin of the Verus proof on the un-desugared function: one call, inputs <= 3 bytes, any carried state',
                'strip_next_str_onecall_n3': 'twin of the Verus proof: one call, valid UTF-8 inputs <= 3 bytes; also discharges valid-UTF-8-piece (C04) for that bound',
                'strip_next_bytes_onecall_n5': 'as n3 with inputs <= 5 bytes', 'strip_next_str_onecall_n4': 'as n3 with inputs <= 4 bytes'},
    'assumptions': ['std Iterator::position / iter().copied() semantics (rule E8a desugaring), cross-checked by the bounded Kani twins on the un-desugared functions',
                    'utf8parse crate: behaviour of Parser::advance as compiled by Kani (trace-equivalence with S5 is proved, complete)'],
    'explanation': 'Verus proves for inputs of any length and any carried state that one call of next_bytes/next_str returns exactly the next maximal run of model-visible bytes as a sub-slice, leaves the rest, and carries the model state; leaves (table, predicates, UTF-8 accumulator) are discharged completely by Kani.',
}

VT_TABLE['harnesses'] = ['vt_table_state_change_eq_spec', 'vt_table_unpack_total', 'vt_table_try_from']
PARSE_LEAVES = {'crate': 'anstyle-parse', 'harnesses': ['vt_table_state_change_eq_spec', 'vt_table_unpack_total', 'vt_table_try_from', 'parse_osc_dispatch_slices'],
                'timeout': 900, 'flags': ['-Z', 'valid-value-checks']}
PROPS['C02'] = {
    'level': 'proof',
    'functions': ['anstyle_parse::Parser::{advance,process_utf8,perform_state_change,perform_action,osc_dispatch,params,intermediates}',
                  'anstyle_parse::Params::{len,is_empty,is_full,clear,push,extend}', 'anstyle_parse::ParamsIter::{new,next}',
                  'anstyle_parse::state::{state_change,state_change_,unpack}', 'TryFrom<u8> for State/Action'],
    'quick': {'verus': ['parse_core'], 'kani': [PARSE_LEAVES]},
    'thorough': {'verus': ['parse_core'], 'kani': [PARSE_LEAVES]},
    'bounded': {'parse_osc_dispatch_slices': 'unsafe leaf osc_dispatch: all parameter counts 0..=16 and all bounds tables, payload <= 6 bytes'},
    'assumptions': ['Perform is caller code: each callback is specified to append exactly one event to a ghost log (rule E6)',
                    'CharAccumulator is specified as a deterministic step function (rule E6); for Utf8Parser see C01 strip_utf8_add_eq_s5 / utf8parse crate',
                    'L-stream (a driver loop over advance yields model_run) and L-cancel (after CAN/SUB the model behaves as from a fresh state) are consequences of the one-step refinement argued in DESIGN.md, not mechanised'],
    'explanation': 'Verus proves that one call of the real Parser::advance refines one step of the S2 model (Williams parser + documented limits) for every well-formed parser state and every byte: same events in the same order with the same arguments, representation invariants of Params/OSC bookkeeping preserved; the 16x256 table equals S1 and the unsafe leaves are discharged by Kani.',
}
PROPS['C03'] = {
    'level': 'proof',
    'functions': ['anstream::adapter::strip::{next_bytes,next_str}', 'anstream::strip::{write,write_all}'],
    'quick': {'verus': ['strip_scan', 'strip_fold'], 'kani': [
        {'crate': 'anstream', 'harnesses': STRIP_LEAVES, 'timeout': 900}]},
    'thorough': {'verus': ['strip_scan', 'strip_fold'], 'kani': [
        {'crate': 'anstream', 'harnesses': STRIP_LEAVES + ['strip_next_bytes_onecall_n3', 'strip_next_str_onecall_n3'], 'timeout': 3000}]},
    'bounded': {'strip_next_bytes_onecall_n3': 'twin, inputs <= 3 bytes', 'strip_next_str_onecall_n3': 'twin, inputs <= 3 bytes'},
    'assumptions': ['styled-run extractor (WinconBytes::extract_next) chunking is covered through the parser one-step refinement (C02) and C07; no separate obligation here',
                    'std Iterator::position semantics (rule E8a)'],
    'explanation': 'The one-call scan contracts are stated for an arbitrary carried state and pin the carried state after the call to the model state at the cut; the spec-level fold lemmas (unit strip_fold) then give visible(a ++ b) == visible(a) ++ visible-from-carried-state(b) for every cut, including cuts inside escape sequences and (byte API) inside characters.',
}
PROPS['C04'] = {
    'level': 'proof',
    'functions': ['every function of units parse_core, strip_scan, lossy (Verus checks overflow, bounds, unwrap on all of them)', 'anstyle_parse::state::unpack (transmute)',
                  'anstyle_parse::Parser::osc_dispatch (MaybeUninit)', 'anstream::adapter::strip::from_utf8_unchecked via next_str', 'anstyle::color::DisplayBuffer'],
    'quick': {'verus': ['parse_core', 'strip_scan', 'lossy'], 'kani': [PARSE_LEAVES,
        {'crate': 'anstream', 'harnesses': ['strip_next_str_onecall_n3'], 'timeout': 900},
        {'crate': 'anstyle', 'harnesses': ['render_write_code_all', 'render_buffer_rgb_fg'], 'timeout': 900}]},
    'thorough': {'verus': ['parse_core', 'strip_scan', 'lossy'], 'kani': [PARSE_LEAVES,
        {'crate': 'anstream', 'harnesses': ['strip_next_str_onecall_n4', 'strip_next_bytes_onecall_n5'], 'timeout': 3000},
        {'crate': 'anstyle', 'harnesses': ['render_write_code_all', 'render_buffer_ansi', 'render_buffer_ansi256', 'render_buffer_rgb_fg', 'render_buffer_rgb_bg', 'render_buffer_rgb_underline'], 'timeout': 1800}]},
    'bounded': {'strip_next_str_onecall_n3': 'valid-UTF-8 piece obligation of from_utf8_unchecked: all valid UTF-8 inputs <= 3 bytes (4 in thorough)',
                'parse_osc_dispatch_slices': 'payload <= 6 bytes'},
    'assumptions': ['NOT covered: anstyle-svg and anstyle-roff converters, anstyle_ls::parse tokeniser, anstyle_git::parse (string/alloc code outside both tools, see C11/C12/C14/C15)',
                    'valid-UTF-8-ness of text pieces is proved structurally in Verus (pieces start and end on non-continuation bytes) and bounded-checked with from_utf8 by Kani'],
    'explanation': 'Safety side-conditions of the verified units: Verus discharges no-overflow / in-bounds / unwrap obligations for every extracted function for all inputs; Kani checks the unsafe leaves (transmute for all 256 values, MaybeUninit slices, from_utf8_unchecked) and the 19-byte display buffer.',
}
C06_QUICK = ['stream_write_plumbing_interrupted', 'stream_write_plumbing_wouldblock', 'stream_write_plumbing_other', 'stream_write_all_plumbing', 'stream_methods_forward']
PROPS['C06'] = {
    'level': 'proof',
    'functions': ['anstream::strip::{write,write_all,write_fmt,offset_to}', 'impl Write for StripStream (write, write_vectored, flush, write_all, write_fmt)', 'anstream::fmt::Adapter (thorough)'],
    'quick': {'verus': ['strip_scan', 'strip_fold'], 'kani': [
        {'crate': 'anstream', 'harnesses': C06_QUICK, 'timeout': 1500, 'flags': ['-Z', 'stubbing'], 'mem_gb': 12}]},
    'thorough': {'verus': ['strip_scan', 'strip_fold'], 'kani': [
        {'crate': 'anstream', 'harnesses': C06_QUICK, 'timeout': 3000, 'flags': ['-Z', 'stubbing'], 'mem_gb': 12}]},
    'assumptions': ['modular: next_bytes is replaced by a recording stand-in returning an arbitrary answer of the shape its verified contract guarantees (verus:strip_scan::next_bytes); buffers up to 4 bytes (write never inspects byte values)',
                    'fmt::Adapter / write_fmt: CBMC does not finish on core::fmt::write (measured > 50 min); its error-saving logic is covered only by reading: listed as unverified',
                    'the inner writer honours the Write contract (returns n <= buf.len())'],
    'explanation': 'Kani verifies write/write_all against the scanner contract for every carried state, every scanner answer and every inner-writer outcome (accept any prefix, fail with Interrupted/WouldBlock/Other): exactly one inner write per call, the reported count ends at the last accepted visible byte, the state is replayed over exactly the consumed prefix from the entry state, errors surface with their kind and leave state and delivery untouched. Verus (strip_scan + strip_fold) supplies what the routed pieces and states mean.',
}
