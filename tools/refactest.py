#!/usr/bin/env python3
"""False-alarm test: apply behaviour-preserving refactorings and require that no check alarms.

  tools/refactest.py [--tier quick] [name ...]

For every /verif/refactors/<name>/ (patch.diff + meta.json with "checks": [property ids]): apply
the patch in a throw-away git worktree of /repo's HEAD, run `./check <id>` there (VERIF_REPO), and
classify: rc 0 = still proved; rc 2 = undecided (a contract anchor was lost: acceptable, reported);
rc 1 = FALSE ALARM (the machinery is wrong and must be corrected).  Not part of the MANIFEST commands.
"""
import json
import os
import subprocess
import sys
import tempfile
import time

VERIF = os.path.dirname(os.path.dirname(os.path.abspath(__file__)))


def sh(cmd, **kw):
    return subprocess.run(cmd, shell=True, capture_output=True, text=True, **kw)


def main():
    args = [a for a in sys.argv[1:] if not a.startswith('--')]
    tier = 'quick'
    if '--tier' in sys.argv:
        tier = sys.argv[sys.argv.index('--tier') + 1]
        args = [a for a in args if a != tier]
    base = os.path.join(VERIF, 'refactors')
    names = [n for n in sorted(os.listdir(base)) if os.path.exists(os.path.join(base, n, 'patch.diff')) and (not args or n in args)]
    wt = tempfile.mkdtemp(prefix='anstyle-refactest.')
    os.rmdir(wt)
    r = sh(f'git -C /repo worktree add --detach {wt} HEAD')
    if r.returncode != 0:
        print('cannot create worktree:', r.stderr)
        sys.exit(2)
    os.environ['VERIF_REPO'] = wt
    results = []
    try:
        for n in names:
            d = os.path.join(base, n)
            meta = json.load(open(os.path.join(d, 'meta.json')))
            ap = sh(f'git -C {wt} apply {d}/patch.diff')
            if ap.returncode != 0:
                results.append((n, '-', 'PATCH DOES NOT APPLY: ' + ap.stderr.strip()[:200]))
                continue
            try:
                for pid in meta['checks']:
                    t0 = time.time()
                    r = sh(f'./check {pid} --tier {tier}', cwd=VERIF, timeout=7200)
                    verdict = {0: 'STILL PROVED', 2: 'UNDECIDED', 1: 'FALSE ALARM'}.get(r.returncode, f'rc={r.returncode}')
                    und = [l.strip() for l in r.stderr.split('\n') if l.startswith('UNDECIDED') or 'failed obligation' in l][:3]
                    results.append((n, pid, f'{verdict} {time.time() - t0:.0f}s ' + ' | '.join(x[:220] for x in und)))
                    print(results[-1], flush=True)
            finally:
                sh(f'git -C {wt} checkout -- .')
    finally:
        sh(f'git -C /repo worktree remove --force {wt}')
    print('\n==== summary')
    for r in results:
        print(r)


if __name__ == '__main__':
    main()
