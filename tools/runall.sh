#!/bin/bash
# Run every claimed check once (quick tier by default) and print rc and wall time per property.
# Usage: tools/runall.sh [quick|thorough] [ids...]
cd "$(dirname "$0")/.."
tier=${1:-quick}; shift
ids=${@:-$(python3 -c "import sys; sys.path.insert(0,'tools'); import props; print(' '.join(sorted(props.PROPS)))")}
for id in $ids; do
  t0=$(date +%s)
  ./check $id --tier $tier > /tmp/runall-$id.out 2> /tmp/runall-$id.err
  rc=$?
  t1=$(date +%s)
  echo "$id rc=$rc $((t1-t0))s $(grep -c '^VIOLATION' /tmp/runall-$id.out) violations $(grep -c '^KNOWN-FINDING' /tmp/runall-$id.out) known; $(tail -1 /tmp/runall-$id.err | cut -c1-160)"
done
