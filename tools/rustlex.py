"""A small Rust lexer, sufficient to locate items and match braces.

Handles: line comments, nested block comments, string literals (plain, byte,
raw with hashes), char/byte literals vs. lifetimes, numbers, identifiers,
punctuation.  Tokens carry their byte offsets so that the *verbatim* source
text of an item can be cut out (nothing is re-printed from tokens).
"""
import re

IDENT_START = re.compile(r'[A-Za-z_]')
IDENT = re.compile(r'[A-Za-z_][A-Za-z0-9_]*')
NUMBER = re.compile(r'[0-9][0-9A-Za-z_]*(\.[0-9][0-9A-Za-z_]*)?')


class Tok:
    __slots__ = ('kind', 'text', 'start', 'end')

    def __init__(self, kind, text, start, end):
        self.kind = kind      # 'id', 'num', 'str', 'char', 'life', 'punct', 'comment', 'doc'
        self.text = text
        self.start = start
        self.end = end

    def __repr__(self):
        return f'Tok({self.kind},{self.text!r},{self.start})'


class LexError(Exception):
    pass


def lex(src, keep_comments=False):
    toks = []
    i = 0
    n = len(src)
    while i < n:
        c = src[i]
        if c.isspace():
            i += 1
            continue
        if src.startswith('//', i):
            j = src.find('\n', i)
            if j < 0:
                j = n
            text = src[i:j]
            if keep_comments:
                kind = 'doc' if (text.startswith('///') and not text.startswith('////')) or text.startswith('//!') else 'comment'
                toks.append(Tok(kind, text, i, j))
            i = j
            continue
        if src.startswith('/*', i):
            depth = 1
            j = i + 2
            while j < n and depth:
                if src.startswith('/*', j):
                    depth += 1
                    j += 2
                elif src.startswith('*/', j):
                    depth -= 1
                    j += 2
                else:
                    j += 1
            if depth:
                raise LexError('unterminated block comment')
            if keep_comments:
                toks.append(Tok('comment', src[i:j], i, j))
            i = j
            continue
        # raw strings r"..", r#".."#, br".."
        m = re.match(r'(b?r)(#*)"', src[i:i + 40])
        if m:
            hashes = m.group(2)
            endmark = '"' + hashes
            j = src.find(endmark, i + len(m.group(0)))
            if j < 0:
                raise LexError('unterminated raw string')
            j += len(endmark)
            toks.append(Tok('str', src[i:j], i, j))
            i = j
            continue
        if c == '"' or (c == 'b' and i + 1 < n and src[i + 1] == '"'):
            j = i + (2 if c == 'b' else 1)
            while j < n and src[j] != '"':
                if src[j] == '\\':
                    j += 2
                else:
                    j += 1
            if j >= n:
                raise LexError('unterminated string')
            j += 1
            toks.append(Tok('str', src[i:j], i, j))
            i = j
            continue
        if c == "'" or (c == 'b' and i + 1 < n and src[i + 1] == "'"):
            k = i + (1 if c == 'b' else 0)
            # char literal or lifetime?
            # char: '\..' or 'x' (one char then ')
            if src[k + 1] == '\\':
                j = k + 2
                while j < n and src[j] != "'":
                    j += 1
                j += 1
                toks.append(Tok('char', src[i:j], i, j))
                i = j
                continue
            # find closing quote after exactly one (possibly multibyte) char
            if k + 2 < n and src[k + 2] == "'":
                j = k + 3
                toks.append(Tok('char', src[i:j], i, j))
                i = j
                continue
            # lifetime
            m = IDENT.match(src, k + 1)
            if not m:
                raise LexError(f'bad quote at {i}')
            toks.append(Tok('life', src[i:m.end()], i, m.end()))
            i = m.end()
            continue
        if IDENT_START.match(c):
            m = IDENT.match(src, i)
            toks.append(Tok('id', m.group(0), i, m.end()))
            i = m.end()
            continue
        if c.isdigit():
            m = NUMBER.match(src, i)
            # do not swallow range operator: `0..5`
            text = m.group(0)
            end = m.end()
            if '.' in text and src.startswith('..', i + text.index('.')):
                end = i + text.index('.')
                text = src[i:end]
            toks.append(Tok('num', text, i, end))
            i = end
            continue
        toks.append(Tok('punct', c, i, i + 1))
        i += 1
    return toks


OPEN = {'{': '}', '(': ')', '[': ']'}
CLOSE = {'}', ')', ']'}


def match_close(toks, idx):
    """toks[idx] is an opening bracket; return index of the matching closer."""
    assert toks[idx].kind == 'punct' and toks[idx].text in OPEN, toks[idx]
    depth = 0
    for j in range(idx, len(toks)):
        t = toks[j]
        if t.kind != 'punct':
            continue
        if t.text in OPEN:
            depth += 1
        elif t.text in CLOSE:
            depth -= 1
            if depth == 0:
                return j
    raise LexError('unbalanced brackets')
