"""Mechanical extraction of real /repo items into a single-file Verus unit.

A unit template (units/<unit>.rs) is ordinary Verus text (spec functions,
lemmas, impl headers) interleaved with `//@` directives that pull the
*verbatim* text of items out of the repository's current working tree and
splice contracts around it.  Nothing executable is ever written by hand in a
template: executable statements only come from /repo.

Directives
----------
//@features a,b                 feature set used to resolve #[cfg(feature = "..")]
//@include <path under /verif>  splice a specification file verbatim
//@item <file> <kind> <name>    kind in enum|struct|const|static ; rules E1-E3
//@fn <file> <path> [impl=<text>] [as=<name>]
    //@ret <name>               name the return value  `-> (name: T)`      (E4)
    //@contract                 following plain lines: requires/ensures/decreases
    //@loop <n>                 following plain lines: loop spec of n-th loop
    //@after <k> <line text>    following plain lines: ghost code after the k-th
                                source line whose stripped text equals <line text>
    //@before <k> <line text>   same, before
    //@desugar position         rule E8(a)
    //@desugar for_iter <n>     rule E8(b) on the n-th `for` loop
    //@external_body            rule E7 (body dropped, contract trusted -> listed)
    //@drop_unsafe_call <callee>   see rule E7b
//@end

Rules applied are recorded per item, together with the SHA-256 of the source
text, in the returned manifest (it goes into the evidence file).

Any lost anchor raises ExtractError -> the driver exits 2 (undecided).
"""
import hashlib
import os
import re
import sys

sys.path.insert(0, os.path.dirname(__file__))
from rustlex import lex, match_close, LexError, Tok  # noqa: E402


class ExtractError(Exception):
    pass


DROP_ATTR = re.compile(r'^#\[(inline|must_use|allow|track_caller|doc|warn|deny|rustfmt|cold)\b')
KEEP_DERIVES = {'Copy', 'Clone', 'PartialEq', 'Eq'}


def sha(text):
    return hashlib.sha256(text.encode()).hexdigest()[:16]


# ---------------------------------------------------------------- locating

class Source:
    def __init__(self, repo, rel):
        self.rel = rel
        path = os.path.join(repo, rel)
        if not os.path.exists(path):
            raise ExtractError(f'lost anchor: file {rel} does not exist')
        self.src = open(path).read()
        try:
            self.toks = lex(self.src)
        except LexError as e:
            raise ExtractError(f'cannot lex {rel}: {e}')

    def item_start(self, idx):
        """Walk back from token idx (the `fn`/`struct`/.. keyword) over
        qualifiers, visibility and attributes; return start offset in src."""
        toks = self.toks
        i = idx
        while i > 0:
            p = toks[i - 1]
            if p.kind == 'id' and p.text in ('pub', 'const', 'unsafe', 'async', 'extern', 'default'):
                i -= 1
                continue
            if p.kind == 'str' and i >= 2 and toks[i - 2].kind == 'id' and toks[i - 2].text == 'extern':
                i -= 1
                continue
            if p.kind == 'punct' and p.text == ')':
                # pub(crate)
                j = i - 1
                depth = 0
                while j >= 0:
                    if toks[j].kind == 'punct' and toks[j].text == ')':
                        depth += 1
                    elif toks[j].kind == 'punct' and toks[j].text == '(':
                        depth -= 1
                        if depth == 0:
                            break
                    j -= 1
                if j >= 1 and toks[j - 1].kind == 'id' and toks[j - 1].text == 'pub':
                    i = j - 1
                    continue
                break
            if p.kind == 'punct' and p.text == ']':
                # attribute #[...]
                j = i - 1
                depth = 0
                while j >= 0:
                    if toks[j].kind == 'punct' and toks[j].text == ']':
                        depth += 1
                    elif toks[j].kind == 'punct' and toks[j].text == '[':
                        depth -= 1
                        if depth == 0:
                            break
                    j -= 1
                if j >= 1 and toks[j - 1].kind == 'punct' and toks[j - 1].text == '#':
                    i = j - 1
                    continue
                break
            break
        return i

    def find_impl_blocks(self, type_name, impl_filter=None):
        """Yield (open_idx, close_idx, header_text) of impl blocks whose header
        mentions type_name (and impl_filter if given)."""
        toks = self.toks
        out = []
        i = 0
        depth = 0
        while i < len(toks):
            t = toks[i]
            if t.kind == 'punct' and t.text == '{':
                depth += 1
            elif t.kind == 'punct' and t.text == '}':
                depth -= 1
            elif t.kind == 'id' and t.text == 'impl' and depth >= 0:
                # header runs to the first '{' at bracket depth 0 (skip <..> is not needed:
                # generics contain no braces in this code base)
                j = i + 1
                while j < len(toks) and not (toks[j].kind == 'punct' and toks[j].text == '{'):
                    j += 1
                if j >= len(toks):
                    break
                header = self.src[t.start:toks[j].start]
                names = [x.text for x in toks[i + 1:j] if x.kind == 'id']
                hdr_norm = ' '.join(header.split())
                if type_name in names and (impl_filter is None or impl_filter in hdr_norm):
                    out.append((j, match_close(toks, j), hdr_norm))
                # do not skip the block: nested impls are not expected, continue scanning after header
                i = j
                continue
            i += 1
        return out

    def find_fn(self, path, impl_filter=None):
        """Return (start_off, sig_start_tok, body_open_tok, body_close_tok)."""
        toks = self.toks
        parts = path.split('::')
        name = parts[-1]
        ranges = []
        if len(parts) == 2:
            for (o, c, hdr) in self.find_impl_blocks(parts[0], impl_filter):
                ranges.append((o + 1, c, 1))
        elif len(parts) == 1:
            ranges.append((0, len(toks), 0))
        else:
            raise ExtractError(f'unsupported path {path}')
        hits = []
        for (lo, hi, want_depth) in ranges:
            depth = want_depth
            i = lo
            while i < hi:
                t = toks[i]
                if t.kind == 'punct' and t.text == '{':
                    # skip nested blocks entirely (bodies of other fns, mods)
                    if depth >= want_depth:
                        # entering a nested block: for free fns (want_depth 0) allow `mod x {` nesting
                        j = match_close(toks, i)
                        if want_depth == 0 and i >= 2 and toks[i - 2].kind == 'id' and toks[i - 2].text == 'mod':
                            i += 1
                            continue
                        i = j + 1
                        continue
                if t.kind == 'id' and t.text == 'fn' and i + 1 < hi and toks[i + 1].kind == 'id' and toks[i + 1].text == name:
                    # find body open: first '{' at paren depth 0 after the signature
                    j = i + 2
                    pd = 0
                    while j < hi:
                        tj = toks[j]
                        if tj.kind == 'punct' and tj.text in '([':
                            pd += 1
                        elif tj.kind == 'punct' and tj.text in ')]':
                            pd -= 1
                        elif tj.kind == 'punct' and tj.text == '{' and pd == 0:
                            break
                        elif tj.kind == 'punct' and tj.text == ';' and pd == 0:
                            j = None
                            break
                        j += 1
                    if j is None:
                        i += 2
                        continue
                    hits.append((i, j, match_close(toks, j)))
                    i = match_close(toks, j) + 1
                    continue
                i += 1
        if len(hits) == 0:
            raise ExtractError(f'lost anchor: fn {path} not found in {self.rel}' + (f' (impl {impl_filter})' if impl_filter else ''))
        if len(hits) > 1:
            raise ExtractError(f'ambiguous anchor: fn {path} found {len(hits)} times in {self.rel}; use impl=')
        fn_idx, bo, bc = hits[0]
        st = self.item_start(fn_idx)
        return st, fn_idx, bo, bc

    def find_item(self, kind, name):
        toks = self.toks
        hits = []
        depth = 0
        for i, t in enumerate(toks):
            if t.kind == 'punct' and t.text == '{':
                depth += 1
            elif t.kind == 'punct' and t.text == '}':
                depth -= 1
            if t.kind == 'id' and t.text == kind and i + 1 < len(toks) and toks[i + 1].kind == 'id' and toks[i + 1].text == name:
                if kind == 'const' and i + 2 < len(toks) and toks[i + 2].text != ':':
                    continue
                hits.append((i, depth))
        if not hits:
            raise ExtractError(f'lost anchor: {kind} {name} not found in {self.rel}')
        # prefer the outermost
        hits.sort(key=lambda h: h[1])
        i = hits[0][0]
        st = self.item_start(i)
        # end: for struct/enum: matching brace of first '{' (or ';' for tuple/unit struct); const/static: ';' at depth 0
        j = i + 2
        pd = 0
        end = None
        while j < len(toks):
            tj = toks[j]
            if tj.kind == 'punct' and tj.text in '([':
                pd += 1
            elif tj.kind == 'punct' and tj.text in ')]':
                pd -= 1
            elif tj.kind == 'punct' and tj.text == '{' and pd == 0:
                c = match_close(toks, j)
                if kind in ('struct', 'enum'):
                    end = toks[c].end
                    break
                j = c
            elif tj.kind == 'punct' and tj.text == ';' and pd == 0:
                end = tj.end
                break
            j += 1
        if end is None:
            raise ExtractError(f'cannot delimit {kind} {name} in {self.rel}')
        return toks[st].start, toks[i].start, end


# ---------------------------------------------------------------- rewriting

def strip_doc_comments(text):
    out = []
    for line in text.split('\n'):
        s = line.strip()
        if s.startswith('///') or s.startswith('//!'):
            continue
        out.append(line)
    return '\n'.join(out)


def resolve_cfg(text, features, rules):
    """Resolve `#[cfg(feature = "x")]` / `#[cfg(not(feature = "x"))]` attributes that
    precede a field, statement, item or block.  Enabled -> attribute removed;
    disabled -> attribute and the following field/statement/block removed."""
    pat = re.compile(r'#\[cfg\((not\()?feature\s*=\s*"([^"]+)"\)?\)\]\s*')
    while True:
        m = pat.search(text)
        if not m:
            return text
        neg = bool(m.group(1))
        enabled = (m.group(2) in features) != neg
        rules.add('E1-cfg')
        if enabled:
            text = text[:m.start()] + text[m.end():]
            continue
        # remove the following syntactic unit
        rest = text[m.end():]
        toks = lex(rest)
        if not toks:
            raise ExtractError('cfg attribute at end of item')
        if toks[0].kind == 'punct' and toks[0].text == '{':
            c = match_close(toks, 0)
            end = toks[c].end
        else:
            pd = 0
            end = None
            is_field = len(toks) >= 2 and toks[0].kind == 'id' and toks[1].text == ':' and not (len(toks) > 2 and toks[2].text == ':')
            ad = 0
            for k, t in enumerate(toks):
                if is_field and t.kind == 'punct' and t.text == '<':
                    ad += 1
                    continue
                if is_field and t.kind == 'punct' and t.text == '>' and ad > 0:
                    ad -= 1
                    continue
                if ad > 0:
                    continue
                if t.kind == 'punct' and t.text in '([{':
                    pd += 1
                elif t.kind == 'punct' and t.text in ')]}':
                    if pd == 0:
                        end = t.start
                        break
                    pd -= 1
                    if pd == 0 and t.text == '}':
                        # block-like item ends here unless followed by ';' or ','
                        end = t.end
                        if k + 1 < len(toks) and toks[k + 1].text in (';', ','):
                            end = toks[k + 1].end
                        break
                elif t.kind == 'punct' and t.text in (';', ',') and pd == 0:
                    end = t.end
                    break
            if end is None:
                raise ExtractError('cannot delimit cfg-disabled element')
        text = text[:m.start()] + rest[end:]


def drop_attrs(text, rules):
    """E1: drop lint/inline attributes (outer, anywhere in the item text)."""
    out = []
    i = 0
    toks = lex(text)
    cut = []
    for k, t in enumerate(toks):
        if t.kind == 'punct' and t.text == '#' and k + 1 < len(toks) and toks[k + 1].text == '[':
            c = match_close(toks, k + 1)
            attr = text[t.start:toks[c].end]
            if DROP_ATTR.match(attr.replace(' ', '')) or DROP_ATTR.match(attr):
                cut.append((t.start, toks[c].end))
                rules.add('E1')
    for (a, b) in reversed(cut):
        text = text[:a] + text[b:]
    return text


def drop_vis(text, rules):
    """E2: delete `pub` / `pub(crate)` / `pub(super)` tokens."""
    toks = lex(text)
    cut = []
    k = 0
    while k < len(toks):
        t = toks[k]
        if t.kind == 'id' and t.text == 'pub':
            end = t.end
            if k + 1 < len(toks) and toks[k + 1].text == '(' and k + 2 < len(toks) and toks[k + 2].text in ('crate', 'super', 'self', 'in'):
                c = match_close(toks, k + 1)
                end = toks[c].end
            cut.append((t.start, end))
            rules.add('E2')
        k += 1
    for (a, b) in reversed(cut):
        text = text[:a] + text[b:].lstrip(' ')
    return text


def rewrite_derives(text, kind, rules, structural=True):
    """E3: keep Copy/Clone/PartialEq/Eq, drop the rest, add Structural."""
    kept = []

    def repl(m):
        names = [x.strip() for x in m.group(1).split(',') if x.strip()]
        for nm in names:
            if nm in KEEP_DERIVES and nm not in kept:
                kept.append(nm)
        rules.add('E3')
        return ''
    text = re.sub(r'#\[derive\(([^)]*)\)\]\s*', repl, text)
    text = re.sub(r'#\[default\]\s*', '', text)
    text = re.sub(r'#\[repr\([^)]*\)\]\s*', lambda m: m.group(0), text)
    ders = list(kept)
    if structural and 'PartialEq' in ders:
        ders.append('Structural')
    if ders:
        text = '#[derive(' + ', '.join(ders) + ')]\n' + text.lstrip('\n')
    return text


def name_return(sig, retname, rules):
    toks = lex(sig)
    pd = 0
    arrow = None
    for k, t in enumerate(toks):
        if t.kind == 'punct' and t.text in '([<' and not (t.text == '<' and False):
            if t.text != '<':
                pd += 1
        elif t.kind == 'punct' and t.text in ')]':
            pd -= 1
        elif t.kind == 'punct' and t.text == '-' and pd == 0 and k + 1 < len(toks) and toks[k + 1].text == '>':
            arrow = k
    if arrow is None:
        return sig
    start = toks[arrow + 2].start
    end = len(sig)
    pd = 0
    for t in toks[arrow + 2:]:
        if t.kind == 'punct' and t.text in '([':
            pd += 1
        elif t.kind == 'punct' and t.text in ')]':
            pd -= 1
        elif t.kind == 'id' and t.text == 'where' and pd == 0:
            end = t.start
            break
    ty = sig[start:end].strip()
    rules.add('E4-ret')
    return sig[:start] + f'({retname}: {ty})' + (' ' + sig[end:] if end < len(sig) else '')


def desugar_position(body, rules):
    """E8(a): let X = S.iter().copied().position(|b| { BODY });  ->  definitional while loop."""
    count = 0
    while True:
        toks = lex(body)
        hit = None
        for k in range(len(toks) - 12):
            seq = [t.text for t in toks[k:k + 12]]
            if seq[:11] == ['.', 'iter', '(', ')', '.', 'copied', '(', ')', '.', 'position', '(']:
                hit = k
                break
        if hit is None:
            break
        k = hit
        # receiver expression: tokens back to '='
        e = k - 1
        while e >= 0 and toks[e].text != '=':
            e -= 1
        if e < 2 or toks[e - 2].text != 'let':
            raise ExtractError('E8(a): position() call is not of the form `let X = S.iter().copied().position(..)`')
        let_tok = toks[e - 2]
        var = toks[e - 1].text
        recv = body[toks[e + 1].start:toks[k].start].strip()
        # closure |b| { ... }
        p = k + 11
        if toks[p].text != '|' or toks[p + 2].text != '|' or toks[p + 3].text != '{':
            raise ExtractError('E8(a): closure is not of the form |b| { .. }')
        bvar = toks[p + 1].text
        bo = p + 3
        bc = match_close(toks, bo)
        if toks[bc + 1].text != ')' or toks[bc + 2].text != ';':
            raise ExtractError('E8(a): unexpected tokens after closure')
        closure_body = body[toks[bo].start:toks[bc].end]
        indent = re.search(r'[ \t]*$', body[:let_tok.start]).group(0)
        i1 = indent + '    '
        new = (f'let mut {var}: Option<usize> = None;\n'
               f'{indent}let mut {var}_i: usize = 0;\n'
               f'{indent}while {var}_i < {recv}.len()\n'
               f'{indent}{{\n'
               f'{i1}let {bvar} = {recv}[{var}_i];\n'
               f'{i1}let {var}_found = {closure_body};\n'
               f'{i1}if {var}_found {{ {var} = Some({var}_i); break; }}\n'
               f'{i1}{var}_i += 1;\n'
               f'{indent}}}')
        body = body[:let_tok.start] + new + body[toks[bc + 2].end:]
        count += 1
    if count == 0:
        raise ExtractError('E8(a): no `.iter().copied().position(` found')
    rules.add(f'E8a x{count}')
    return body


def loop_headers(body):
    """Return list of (keyword_tok, open_brace_offset) for loops in textual order."""
    toks = lex(body)
    res = []
    for k, t in enumerate(toks):
        if t.kind == 'id' and t.text in ('while', 'loop', 'for'):
            if t.text == 'for' and k > 0 and toks[k - 1].text in ('impl', '>'):
                continue
            pd = 0
            j = k + 1
            while j < len(toks):
                tj = toks[j]
                if tj.kind == 'punct' and tj.text in '([':
                    pd += 1
                elif tj.kind == 'punct' and tj.text in ')]':
                    pd -= 1
                elif tj.kind == 'punct' and tj.text == '{' and pd == 0:
                    res.append((t, tj.start))
                    break
                j += 1
    return res


def insert_at_lines(body, anchors, where):
    """anchors: list of (k, text, payload).  Insert payload after/before the k-th
    line whose stripped text == text."""
    lines = body.split('\n')
    for (k, text, payload) in anchors:
        seen = 0
        pos = None
        for idx, ln in enumerate(lines):
            if ln.strip() == text:
                seen += 1
                if seen == k:
                    pos = idx
                    break
        if pos is None:
            raise ExtractError(f'lost anchor: line `{text}` (occurrence {k}) not found')
        if where == 'after':
            lines[pos:pos + 1] = [lines[pos], payload]
        else:
            lines[pos:pos + 1] = [payload, lines[pos]]
    return '\n'.join(lines)


# ---------------------------------------------------------------- driver

class Unit:
    def __init__(self, repo, verif, template_path, canary=None, features=None, no_decreases=False):
        # partial correctness: exec recursion / loops the template has no `decreases` for are accepted
        # (termination is not part of any property here); set by the driver on retry only
        self.no_decreases = no_decreases
        self.feature_override = None if features is None else set(features)
        self.canary = canary          # vacuity guard: this fn gets `ensures false`
        self.canary_targets = []      # fns whose contract has a `requires`
        self.repo = repo
        self.verif = verif
        self.template_path = template_path
        self.features = set() if features is None else set(features)
        self.sources = {}
        self.items = []      # manifest entries
        self.external = []   # external_body contracts (assumptions)
        self.auto_emitted = set()
        self.template_text = open(template_path).read()

    def source(self, rel):
        if rel not in self.sources:
            self.sources[rel] = Source(self.repo, rel)
        return self.sources[rel]

    def emit_item(self, rel, kind, name, opts):
        s = self.source(rel)
        st, kw, end = s.find_item(kind, name)
        raw = s.src[st:end]
        rules = set()
        text = strip_doc_comments(raw)
        rules.add('E1')
        text = resolve_cfg(text, self.features, rules)
        text = drop_attrs(text, rules)
        text = drop_vis(text, rules)
        if kind in ('struct', 'enum'):
            if 'noderive' in opts:
                text = re.sub(r'#\[derive\(([^)]*)\)\]\s*', '', text)
                rules.add('E3-noderive')
            else:
                text = rewrite_derives(text, kind, rules, structural=('nostructural' not in opts))
            if 'nodefault' in opts:
                # E3b: drop default type arguments of generics (`<C = Default>` -> `<C>`)
                text, n = re.subn(r'<(\w+)\s*=\s*\w+>', r'<\1>', text, count=1)
                if n != 1:
                    raise ExtractError(f'nodefault: no generic default in {kind} {name}')
                rules.add('E3b')
        self.items.append({'item': f'{kind} {name}', 'file': rel, 'sha256_16': sha(raw), 'rules': sorted(rules)})
        return text + '\n'

    def auto_consts(self, s, text, rules):
        """Rule E11: module-level `const` / `static` items of the same file that the extracted text
        names (and that the template does not define or request itself) are extracted with it, so a
        function that starts to use a new private constant keeps compiling."""
        toks = s.toks
        depth = 0
        cands = {}
        for i, t in enumerate(toks):
            if t.kind == 'punct' and t.text == '{':
                depth += 1
            elif t.kind == 'punct' and t.text == '}':
                depth -= 1
            if depth == 0 and t.kind == 'id' and t.text in ('const', 'static') and i + 2 < len(toks):
                j = i + 1
                if toks[j].kind == 'id' and toks[j].text == 'mut':
                    j += 1
                if toks[j].kind == 'id' and j + 1 < len(toks) and toks[j + 1].text == ':':
                    cands[toks[j].text] = t.text
        if not cands:
            return ''
        used = set(re.findall(r'\b[A-Z][A-Z0-9_]*\b', text))
        tmpl = getattr(self, 'template_text', '')
        out = ''
        for name in sorted(used & set(cands)):
            if name in self.auto_emitted:
                continue
            if re.search(r'\b(const|static)\s+(mut\s+)?' + re.escape(name) + r'\b', tmpl) or re.search(r'//@item\s+\S+\s+(const|static)\s+' + re.escape(name) + r'\b', tmpl):
                continue
            try:
                st, kw, end = s.find_item(cands[name], name)
            except ExtractError:
                continue
            item = s.src[st:end]
            r2 = set()
            item = strip_doc_comments(item)
            item = drop_attrs(item, r2)
            item = drop_vis(item, r2)
            self.auto_emitted.add(name)
            self.items.append({'item': f'{cands[name]} {name} (auto, E11)', 'file': s.rel, 'sha256_16': sha(item), 'rules': ['E11']})
            rules.add('E11')
            out += item.strip() + '\n'
        return out

    def emit_fn(self, rel, path, opts, sub):
        s = self.source(rel)
        st_tok, fn_idx, bo, bc = s.find_fn(path, opts.get('impl'))
        toks = s.toks
        raw = s.src[toks[st_tok].start:toks[bc].end]
        rules = set()
        sig = s.src[toks[st_tok].start:toks[bo].start]
        body = s.src[toks[bo].start:toks[bc].end]
        sig = strip_doc_comments(sig)
        rules.add('E1')
        sig = resolve_cfg(sig, self.features, rules)
        sig = drop_attrs(sig, rules)
        sig = drop_vis(sig, rules)
        sig = sig.strip()
        if 'as' in opts:
            sig = re.sub(r'\bfn\s+' + re.escape(path.split('::')[-1]) + r'\b', 'fn ' + opts['as'], sig, count=1)
            rules.add('E5-rename')
        if 'unconst' in opts:
            sig = re.sub(r'^const\s+', '', sig)
            rules.add('E1-const')
        if 'subst' in opts:
            # E5: associated types of the dropped trait impl are written out
            for pair in opts['subst'].split(';;'):
                a, b = pair.split('=>')
                if a not in sig:
                    raise ExtractError(f'lost anchor: `{a}` not in signature of {path}')
                sig = sig.replace(a, b)
            rules.add('E5-assoc')
        if sub.get('ret'):
            sig = name_return(sig, sub['ret'], rules)
        body = resolve_cfg(body, self.features, rules)
        body = drop_attrs(body, rules)
        deps = self.auto_consts(s, sig + body, rules)
        for d in sub.get('desugar', []):
            if d[0] == 'position':
                body = desugar_position(body, rules)
            else:
                raise ExtractError(f'unknown desugaring {d}')
        if sub.get('after'):
            body = insert_at_lines(body, sub['after'], 'after')
            rules.add('E4-ghost')
        if sub.get('before'):
            body = insert_at_lines(body, sub['before'], 'before')
            rules.add('E4-ghost')
        if sub.get('loops'):
            hdrs = loop_headers(body)
            ins = []
            for n, payload in sub['loops'].items():
                if n < 1 or n > len(hdrs):
                    raise ExtractError(f'lost anchor: loop {n} of {path} (function has {len(hdrs)} loops)')
                ins.append((hdrs[n - 1][1], payload))
            for off, payload in sorted(ins, reverse=True):
                body = body[:off] + '\n' + payload + '\n' + body[off:]
            rules.add('E4-loop')
        contract = sub.get('contract', '')
        if contract:
            rules.add('E4')
        if re.search(r'^\s*requires\b', contract, re.M) and not sub.get('external_body'):
            # (an external_body function is not checked against its body: no canary possible)
            self.canary_targets.append(path)
            if self.canary == path:
                parts = re.split(r'^(\s*)(requires|ensures|decreases|recommends)\b', contract, flags=re.M)
                # parts: [pre, ws, kw, text, ws, kw, text ...]
                new = parts[0]
                k = 1
                while k + 2 < len(parts) + 1 and k + 2 <= len(parts):
                    ws, kw, txt = parts[k], parts[k + 1], parts[k + 2]
                    if kw == 'ensures':
                        pass
                    else:
                        new += ws + kw + txt
                    k += 3
                # ensures must come after requires and before decreases
                m = re.search(r'^\s*decreases\b', new, re.M)
                ins = '    ensures false,\n'
                if m:
                    new = new[:m.start()] + ins + new[m.start():]
                else:
                    new = new.rstrip('\n') + '\n' + ins
                contract = new
        prefix = ''
        if self.no_decreases and not sub.get('external_body'):
            prefix = '#[verifier::exec_allows_no_decreases_clause]\n'
        if sub.get('external_body'):
            prefix = '#[verifier::external_body]\n'
            rules.add('E7')
            self.external.append(f'{path} ({rel}): body outside the Verus subset, contract trusted here and discharged by the paired Kani obligation: ' + ' '.join(contract.split()))
        if sub.get('external_body'):
            body = '{ unimplemented!() }   // body not in the Verus subset: dropped (E7), see the paired Kani obligation'
        out = deps + prefix + sig + '\n' + contract + body + '\n'
        self.items.append({'item': f'fn {path}', 'file': rel, 'sha256_16': sha(raw), 'rules': sorted(rules)})
        return out

    def render(self):
        raw_lines = open(self.template_path).read().split('\n')
        # //@if <feature> ... //@else ... //@endif  (evaluated against the unit's feature set)
        lines = []
        stack = []
        for ln in raw_lines:
            st = ln.strip()
            if st.startswith('//@if '):
                stack.append(st[6:].strip() in self.features)
                continue
            if st == '//@else':
                stack[-1] = not stack[-1]
                continue
            if st == '//@endif':
                stack.pop()
                continue
            if all(stack):
                lines.append(ln)
        out = []
        i = 0
        while i < len(lines):
            ln = lines[i]
            s = ln.strip()
            if not s.startswith('//@'):
                out.append(ln)
                i += 1
                continue
            d = s[3:].strip().split()
            if not d:
                i += 1
                continue
            cmd = d[0]
            if cmd == 'features':
                if self.feature_override is None:
                    self.features = set(x for x in (d[1].split(',') if len(d) > 1 else []) if x)
                i += 1
            elif cmd == 'include':
                p = os.path.join(self.verif, d[1])
                text = open(p).read()
                # single-file unit: everything is crate-private (rule E2 for spec text)
                text = re.sub(r'\bpub\s+(open\s+|closed\s+)?(?=(spec|proof|exec|fn|broadcast)\b)', '', text)
                for w in d[2:]:
                    if w.startswith('opaque='):
                        for fnname in w[len('opaque='):].split(','):
                            text, nsub = re.subn(r'(?m)^(\s*)spec fn ' + re.escape(fnname) + r'(\(|<)', r'\1#[verifier::opaque]\n\1spec fn ' + fnname + r'\2', text)
                            if nsub != 1:
                                raise ExtractError(f'include {d[1]}: cannot mark {fnname} opaque')
                self.items.append({'item': f'include {d[1]}', 'file': d[1], 'sha256_16': sha(text), 'rules': ['spec']})
                out.append(text)
                i += 1
            elif cmd == 'item':
                rel, kind, name = d[1], d[2], d[3]
                out.append(self.emit_item(rel, kind, name, set(d[4:])))
                i += 1
            elif cmd == 'slice':
                # E9: //@slice <file> <fn path> <k> <line text>  — the statements of the function body that
                # follow the k-th line whose stripped text equals <line text>, verbatim, up to the end of the body
                dd = s[3:].strip().split(None, 4)
                rel, path, k, text = dd[1], dd[2], int(dd[3]), dd[4].strip()
                src = self.source(rel)
                st_tok, fn_idx, bo, bc = src.find_fn(path, None)
                body = src.src[src.toks[bo].end:src.toks[bc].start]
                blines = body.split('\n')
                seen = 0
                pos = None
                for idx, bl in enumerate(blines):
                    if bl.strip() == text:
                        seen += 1
                        if seen == k:
                            pos = idx
                            break
                if pos is None:
                    raise ExtractError(f'lost anchor: slice line `{text}` (occurrence {k}) not found in {path}')
                sl = '\n'.join(blines[pos + 1:])
                raw = src.src[src.toks[st_tok].start:src.toks[bc].end]
                self.items.append({'item': f'slice of fn {path} after `{text}`', 'file': rel, 'sha256_16': sha(raw), 'rules': ['E9']})
                out.append(sl)
                i += 1
            elif cmd == 'fn':
                rel, path = d[1], d[2]
                opts = {}
                rest = s[3:].strip().split(None, 3)
                if len(rest) > 3:
                    for m in re.finditer(r'(\w+)=("([^"]*)"|\S+)', rest[3]):
                        opts[m.group(1)] = m.group(3) if m.group(3) is not None else m.group(2)
                    for w in rest[3].split():
                        if '=' not in w and w.isidentifier():
                            opts[w] = True
                sub = {'loops': {}, 'after': [], 'before': [], 'desugar': []}
                i += 1
                cur = None   # (kind, key)
                buf = []

                def flush():
                    if cur is None:
                        return
                    payload = '\n'.join(buf)
                    if cur[0] == 'contract':
                        sub['contract'] = payload + '\n'
                    elif cur[0] == 'loop':
                        sub['loops'][cur[1]] = payload
                    elif cur[0] == 'after':
                        sub['after'].append((cur[1], cur[2], payload))
                    elif cur[0] == 'before':
                        sub['before'].append((cur[1], cur[2], payload))
                while i < len(lines):
                    l2 = lines[i]
                    s2 = l2.strip()
                    if s2.startswith('//@'):
                        dd = s2[3:].strip().split(None, 2)
                        c2 = dd[0] if dd else ''
                        if c2 == 'end':
                            flush()
                            i += 1
                            break
                        flush()
                        buf = []
                        cur = None
                        if c2 == 'ret':
                            sub['ret'] = dd[1]
                        elif c2 == 'contract':
                            cur = ('contract',)
                        elif c2 == 'loop':
                            cur = ('loop', int(dd[1]))
                        elif c2 in ('after', 'before'):
                            cur = (c2, int(dd[1]), dd[2].strip())
                        elif c2 == 'desugar':
                            sub['desugar'].append(tuple(dd[1:]))
                        elif c2 == 'external_body':
                            sub['external_body'] = True
                        else:
                            raise ExtractError(f'unknown directive {s2}')
                        i += 1
                        continue
                    buf.append(l2)
                    i += 1
                else:
                    raise ExtractError(f'missing //@end for fn {path}')
                out.append(self.emit_fn(rel, path, opts, sub))
            else:
                raise ExtractError(f'unknown directive {s}')
        return '\n'.join(out)


def main():
    import argparse
    import json
    ap = argparse.ArgumentParser()
    ap.add_argument('template')
    ap.add_argument('--repo', default='/repo')
    ap.add_argument('--verif', default=os.path.dirname(os.path.dirname(os.path.abspath(__file__))))
    ap.add_argument('-o', '--out', required=True)
    a = ap.parse_args()
    u = Unit(a.repo, a.verif, a.template)
    try:
        text = u.render()
    except ExtractError as e:
        print('EXTRACT-ERROR:', e, file=sys.stderr)
        sys.exit(2)
    open(a.out, 'w').write(text)
    json.dump({'items': u.items, 'external': u.external}, open(a.out + '.items.json', 'w'), indent=1)


if __name__ == '__main__':
    main()
