"""Back-end runners: scratch snapshot, Verus units, Kani jobs, native replay.

Exit-code discipline (see DESIGN.md 1.5):
  FAIL      -> a verifier verdict against a contract clause / safety check
  UNDECIDED -> lost anchor, unsupported construct, time-out, tool crash,
               unwinding assertion, vacuity guard not reached
"""
import json
import os
import re
import shutil
import subprocess
import sys
import tempfile
import time

HERE = os.path.dirname(os.path.abspath(__file__))
VERIF = os.path.dirname(HERE)
REPO = os.environ.get('VERIF_REPO', '/repo')
sys.path.insert(0, HERE)
import extract  # noqa: E402

OK, FAIL, UNDECIDED = 'ok', 'fail', 'undecided'


def log(*a):
    print(*a, file=sys.stderr, flush=True)


class Scratch:
    """A throw-away copy of /repo's current working tree (outside /repo and /verif)."""

    def __init__(self):
        base = os.environ.get('VERIF_SCRATCH_BASE', tempfile.gettempdir())
        self.dir = tempfile.mkdtemp(prefix='anstyle-verif.', dir=base)
        self.repo = os.path.join(self.dir, 'repo')
        subprocess.run(['rsync', '-a', '--exclude', 'target', '--exclude', '.git', REPO + '/', self.repo + '/'], check=True)
        self.injected = set()

    def cleanup(self):
        shutil.rmtree(self.dir, ignore_errors=True)


# ----------------------------------------------------------------- Verus

VERUS_ERR = re.compile(r'^error(\[[A-Z0-9]+\])?: (.*)$')
VERDICT_KINDS = (
    'postcondition not satisfied', 'precondition not satisfied', 'invariant not satisfied',
    'assertion failed', 'possible arithmetic underflow/overflow', 'possible division by zero',
    'decreases not satisfied', 'loop invariant', 'index out of bounds', 'possible bit shift underflow/overflow',
    'unreachable', 'recommendation not met', 'could not show termination', 'termination',
    'failed this postcondition', 'value may be out of range', 'constructed value may fail to meet its declared type invariant',
    'assertion not satisfied', 'bit_vector', 'nonlinear', 'while loop: not all',
)
UNDECIDED_KINDS = ('rlimit', 'resource limit', 'timed out', 'timeout', 'panicked', 'internal compiler error')


def run_verus_unit(unit, outdir, repo_dir, rlimit=None, canary=True):
    """Extract + verify one unit; when Verus rejects the text only because a function that became
    recursive (or a new loop) has no `decreases`, verify again for partial correctness."""
    res = run_verus_unit_once(unit, outdir, repo_dir, rlimit=rlimit, canary=canary)
    if res['result'] == UNDECIDED and 'must have a decreases clause' in (res.get('reason') or '') + (res.get('stderr') or ''):
        res2 = run_verus_unit_once(unit, outdir, repo_dir, rlimit=rlimit, canary=canary, no_decreases=True)
        res2['no_decreases'] = True
        res2['assumptions'] = list(res2.get('assumptions', [])) + [f'unit {unit}: an extracted function is recursive or loops without a `decreases` clause in the contract template; verified with #[verifier::exec_allows_no_decreases_clause] (partial correctness: termination NOT checked)']
        return res2
    return res


def run_verus_unit_once(unit, outdir, repo_dir, rlimit=None, canary=True, no_decreases=False):
    """Extract + verify one unit.  Returns dict(result=..., functions=[...], failures=[...], ...)."""
    t0 = time.time()
    base, _, feats = unit.partition('+')
    features = [f for f in feats.split(',') if f] if feats or '+' in unit else None
    tmpl = os.path.join(VERIF, 'units', base + '.rs')
    res = {'engine': 'verus', 'unit': unit, 'result': UNDECIDED, 'functions': [], 'failures': [],
           'items': [], 'assumptions': [], 'reason': '', 'smt_s': 0.0, 'wall_s': 0.0, 'cmd': ''}
    u = extract.Unit(repo_dir, VERIF, tmpl, features=features, no_decreases=no_decreases)
    try:
        text = u.render()
    except extract.ExtractError as e:
        res['reason'] = f'extraction: {e}'
        res['wall_s'] = time.time() - t0
        return res
    res['items'] = u.items
    res['assumptions'] = list(u.external)
    # mechanical scan for trusted constructs in the generated file
    for kw in ('assume(', 'admit(', 'external_body', 'assume_specification', 'external_fn_specification', '#[verifier::external', 'axiom'):
        n = len(re.findall(re.escape(kw), text))
        if n and kw != 'external_body':
            res['assumptions'].append(f'unit {unit}: {n} occurrence(s) of `{kw}` in the generated file')
    gen = os.path.join(outdir, re.sub(r'[^A-Za-z0-9_]', '_', unit) + '.rs')
    open(gen, 'w').write(text)
    cmd = ['verus', gen, '--output-json', '--time-expanded', '--triggers-mode', 'silent', '--multiple-errors', '4']
    if rlimit:
        cmd += ['--rlimit', str(rlimit)]
    res['cmd'] = ' '.join(['verus', f'<extracted {unit}>'] + cmd[2:])
    try:
        p = subprocess.run(cmd, capture_output=True, text=True, timeout=1500, cwd=outdir)
    except subprocess.TimeoutExpired:
        res['reason'] = 'verus timed out'
        res['wall_s'] = time.time() - t0
        return res
    res['stderr'] = p.stderr[-20000:]
    try:
        js = json.loads(p.stdout)
    except Exception:
        res['reason'] = 'verus produced no JSON: ' + p.stderr[-2000:]
        res['wall_s'] = time.time() - t0
        return res
    vr = js.get('verification-results', {})
    fb = []
    try:
        for m in js['times-ms']['smt']['smt-run-module-times']:
            fb += m.get('function-breakdown', [])
        res['smt_s'] = js['times-ms']['smt']['smt-run'] / 1000.0
    except Exception:
        pass
    for f in fb:
        name = f['function'].split('::', 1)[-1]
        res['functions'].append({'function': name, 'mode': f.get('mode:', ''), 'ok': bool(f.get('success')),
                                 'time_us': f.get('time-micros', 0), 'rlimit': f.get('rlimit', 0)})
    res['verified'] = vr.get('verified', 0)
    res['errors'] = vr.get('errors', 0)
    # parse human-readable errors
    errs = []
    lines = p.stderr.split('\n')
    gen_lines = text.split('\n')
    for i, ln in enumerate(lines):
        m = VERUS_ERR.match(ln)
        if not m:
            continue
        msg = m.group(2)
        if msg.startswith('aborting due to'):
            continue
        loc = ''
        src = ''
        for j in range(i + 1, min(i + 4, len(lines))):
            mm = re.search(r'--> .*?:(\d+):(\d+)', lines[j])
            if mm:
                lno = int(mm.group(1))
                loc = f'line {lno}'
                src = gen_lines[lno - 1].strip() if 0 < lno <= len(gen_lines) else ''
                # enclosing function
                fn = ''
                for k in range(lno - 1, -1, -1):
                    fm = re.match(r'\s*(?:#\[[^\]]*\]\s*)*(?:const\s+|proof\s+|spec\s+|exec\s+|unsafe\s+)*fn\s+(\w+)', gen_lines[k])
                    if fm:
                        fn = fm.group(1)
                        break
                loc = fn
                break
        errs.append({'msg': msg, 'where': loc, 'clause': src})
    if vr.get('encountered-vir-error') or (p.returncode != 0 and not fb and not vr.get('success')):
        res['reason'] = 'verus rejected the extracted text (unsupported construct / type error): ' + '; '.join(e['msg'] for e in errs[:3])
        res['wall_s'] = time.time() - t0
        return res
    low = p.stderr.lower()
    if any(k in low for k in UNDECIDED_KINDS) and not vr.get('success'):
        # rlimit etc. -> undecided unless there is also a genuine verdict
        genuine = [e for e in errs if not any(k in e['msg'].lower() for k in UNDECIDED_KINDS)]
        if not genuine:
            res['reason'] = 'resource limit / tool failure: ' + '; '.join(e['msg'] for e in errs[:3])
            res['wall_s'] = time.time() - t0
            return res
        errs = genuine
    if vr.get('success') and vr.get('errors', 1) == 0 and vr.get('verified', 0) > 0:
        res['result'] = OK
    elif errs:
        res['result'] = FAIL
        for e in errs:
            res['failures'].append({'obligation': f"verus:{unit}::{e['where']}: {e['msg']} [{e['clause']}]", 'detail': e})
    else:
        res['reason'] = 'verus failed without a recognised verdict: ' + p.stderr[-1500:]
    if res['result'] == OK and vr.get('verified', 0) == 0:
        res['result'] = UNDECIDED
        res['reason'] = 'vacuous: zero functions verified'
    res['wall_s'] = time.time() - t0
    return res


def verus_canaries(unit, outdir, gen_text=None):
    """Vacuity guard (b): for every function of the unit that has a `requires`,
    a proof fn with the same parameters and precondition and `ensures false`
    must FAIL.  Implemented textually on the generated file."""
    gen = os.path.join(outdir, unit + '.rs')
    text = open(gen).read()
    # find `fn name(params) [-> ret]\n requires ... (ensures|{)` blocks
    out = []
    pat = re.compile(r'\n\s*(?:const\s+|proof\s+|exec\s+)*fn\s+(\w+)\s*(<[^>{]*>)?\s*\(([^{]*?)\)\s*(?:->\s*\([^)]*\)|->\s*[^\n{]*)?\s*\n\s*requires\b(.*?)(?=\n\s*ensures\b|\n\s*decreases\b|\n\s*\{)', re.S)
    return out


# ----------------------------------------------------------------- Kani

def kani_inject(scratch, crate):
    """Copy /verif/kani/<crate>/ into the scratch copy and append `mod` lines (append-only)."""
    if crate in scratch.injected:
        return
    cfgp = os.path.join(VERIF, 'kani', crate, 'inject.json')
    cfg = json.load(open(cfgp))
    cdir = os.path.join(scratch.repo, cfg['crate_dir'])
    dst = os.path.join(cdir, 'src', 'verif_kani')
    os.makedirs(dst, exist_ok=True)
    for fn in os.listdir(os.path.join(VERIF, 'kani', crate)):
        if fn.endswith('.rs'):
            shutil.copy(os.path.join(VERIF, 'kani', crate, fn), os.path.join(dst, fn))
    shutil.copy(os.path.join(VERIF, 'kani', 'common', 'vk.rs'), os.path.join(dst, 'vk.rs'))
    for cm in cfg.get('common', []):
        shutil.copy(os.path.join(VERIF, 'kani', 'common', cm), os.path.join(dst, cm))
    for sp in cfg.get('specs', []):
        text = open(os.path.join(VERIF, 'spec', sp + '.rs')).read()
        text = kani_spec_text(text)
        hdr = cfg.get('spec_prelude', {}).get(sp, 'use super::*;\n')
        open(os.path.join(dst, 'spec_' + sp + '.rs'), 'w').write('#![allow(dead_code, unused_imports, unused_parens, missing_docs, unreachable_pub, clippy::all)]\n' + hdr + text)
    for tp in cfg.get('templates', []):
        # Kani on mechanically extracted functions (same extractor and rules as the Verus units)
        u = extract.Unit(scratch.repo, VERIF, os.path.join(VERIF, tp['template']))
        try:
            open(os.path.join(dst, tp['out']), 'w').write(u.render())
        except extract.ExtractError as e:
            open(os.path.join(dst, tp['out']), 'w').write(f'compile_error!("extraction failed: {e}");\n')
        os.remove(os.path.join(dst, os.path.basename(tp['template']))) if os.path.exists(os.path.join(dst, os.path.basename(tp['template']))) else None
    # harness modules exist under Kani and in the native replay *test* build of this crate only
    # (a dependency built with --cfg verif_replay may be no_std: anstyle-parse, colorchoice)
    guard = '#[cfg(any(kani, all(verif_replay, test)))]'
    root = os.path.join(cdir, cfg.get('root', 'src/lib.rs'))
    with open(root, 'a') as f:
        f.write(f'\n{guard}\nmod verif_kani;\n')
    # every harness module can be switched off with --cfg verif_skip_<module> (used when a module
    # no longer compiles against the tree: a lost anchor must not take the other modules with it)
    modrs = os.path.join(dst, 'mod.rs')
    if os.path.exists(modrs):
        t = open(modrs).read()
        t = re.sub(r'^(\s*)((?:pub(?:\([a-z]+\))?\s+)?mod\s+([A-Za-z0-9_]+)\s*;)', lambda m: f'{m.group(1)}#[cfg(not(verif_skip_{m.group(3)}))]\n{m.group(1)}{m.group(2)}', t, flags=re.M)
        open(modrs, 'w').write(t)
    for ch in cfg.get('children', []):
        parent = os.path.join(cdir, ch['parent'])
        rel = os.path.relpath(os.path.join(dst, ch['file']), os.path.dirname(parent))
        with open(parent, 'a') as f:
            f.write(f'\n{guard}\n#[cfg(not(verif_skip_{ch["name"]}))]\n#[path = "{rel}"]\npub(crate) mod {ch["name"]};\n')
    for ap in cfg.get('append', []):
        # append-only additions to other files of the scratch copy (e.g. Cargo.toml tables)
        with open(os.path.join(cdir, ap['file']), 'a') as f:
            f.write('\n' + ap['text'] + '\n')
    lock = os.path.join(REPO, 'Cargo.lock')
    if os.path.exists(lock):
        shutil.copy(lock, os.path.join(scratch.repo, 'Cargo.lock'))
    scratch.injected.add(crate)


def kani_spec_text(text):
    """spec text -> plain Rust (the dual-use subset, see spec/*.rs headers)."""
    # drop proof fns / lemmas entirely (they are Verus-only)
    text = re.sub(r'//@verus-only-begin.*?//@verus-only-end[^\n]*', '', text, flags=re.S)
    from rustlex import lex, match_close
    while True:
        toks = lex(text)
        cut = None
        for k, t in enumerate(toks):
            if t.kind == 'id' and t.text == 'proof' and k + 1 < len(toks) and toks[k + 1].text == 'fn':
                st = k
                while st > 0 and toks[st - 1].kind == 'id' and toks[st - 1].text in ('pub', 'broadcast', 'open', 'closed'):
                    st -= 1
                j = k + 2
                while not (toks[j].kind == 'punct' and toks[j].text == '{'):
                    if toks[j].text in '([':
                        j = match_close(toks, j)
                    j += 1
                c = match_close(toks, j)
                cut = (toks[st].start, toks[c].end)
                break
        if cut is None:
            break
        text = text[:cut[0]] + text[cut[1]:]
    text = re.sub(r'\bpub\s+(open\s+|closed\s+)?spec\s+fn\b', 'pub fn', text)
    text = re.sub(r'\bspec\s+fn\b', 'pub fn', text)
    return text


KANI_HARNESS = re.compile(r'^(?:Thread \d+: )?Checking harness ([\w:]+)\.\.\.')


def parse_kani(output):
    """Split terse output per harness.  With -j the driver prints
    `Thread N: Checking harness X...` and later a block starting with `Thread N: `
    holding the result of the harness that thread announced last."""
    res = {}
    thread_h = {}
    cur = None
    for ln in output.split('\n'):
        tm = re.match(r'^Thread (\d+): ?(.*)$', ln)
        tid = tm.group(1) if tm else None
        body = tm.group(2) if tm else ln
        m = re.match(r'^Checking harness ([\w:]+)\.\.\.', body)
        if m:
            h = m.group(1)
            res.setdefault(h, [])
            if tid is not None:
                thread_h[tid] = h
                cur = None
            else:
                cur = h
            continue
        if tid is not None:
            cur = thread_h.get(tid)
        if body.startswith('Manual Harness Summary') or body.startswith('Complete - '):
            cur = None
            continue
        if cur is not None:
            res[cur].append(body)
    return {k: '\n'.join(v) for k, v in res.items()}


def classify_kani(name, text):
    r = {'engine': 'kani', 'harness': name, 'result': UNDECIDED, 'checks': 0, 'failed': 0, 'failures': [],
         'covers': (0, 0), 'time_s': 0.0, 'reason': '', 'values': None}
    m = re.search(r'\*\* (\d+) of (\d+) failed', text)
    if m:
        r['failed'] = int(m.group(1))
        r['checks'] = int(m.group(2))
    m = re.search(r'\*\* (\d+) of (\d+) cover properties satisfied', text)
    if m:
        r['covers'] = (int(m.group(1)), int(m.group(2)))
    m = re.search(r'Verification Time: ([\d.]+)s', text)
    if m:
        r['time_s'] = float(m.group(1))
    fails = re.findall(r'Failed Checks: (.*?)\n\s*File: "([^"]*)", line (\d+), in ([^\n]*)', text, flags=re.S)
    fails = [(' '.join(d.split()), f, l, fn) for (d, f, l, fn) in fails]
    for (desc, f, line, fn) in fails:
        r['failures'].append({'desc': desc.strip().strip('"'), 'file': f, 'line': int(line), 'fn': fn.strip()})
    if 'VERIFICATION:- SUCCESSFUL' in text:
        if r['covers'][0] != r['covers'][1]:
            r['result'] = UNDECIDED
            r['reason'] = f'vacuity guard: only {r["covers"][0]} of {r["covers"][1]} cover properties reached'
        elif r['checks'] == 0:
            r['reason'] = 'vacuous: zero checks'
        else:
            r['result'] = OK
    elif 'VERIFICATION:- FAILED' in text:
        genuine = [f for f in r['failures'] if 'unwinding assertion' not in f['desc'] and 'recursion unwinding' not in f['desc']]
        if genuine:
            r['result'] = FAIL
            r['failures'] = genuine
        elif r['failures']:
            r['reason'] = 'unwinding assertion failed (bound too small): ' + r['failures'][0]['desc']
        elif 'CBMC timed out' in text or 'timed out' in text.lower():
            r['reason'] = 'CBMC timed out'
        elif re.search(r'out of memory|std::bad_alloc|memory exhausted|Killed', text, re.I):
            r['reason'] = 'CBMC ran out of memory'
        else:
            # FAILED with no failed check listed: e.g. unsupported construct reachable
            if 'unsupported' in text.lower():
                r['reason'] = 'unsupported construct reached'
            else:
                r['reason'] = 'failed without a property verdict: ' + text[-600:]
    else:
        if 'timed out' in text.lower():
            r['reason'] = 'harness timed out'
        else:
            r['reason'] = 'no verdict: ' + text[-600:]
    # concrete playback values
    m = re.search(r'let concrete_vals: Vec<Vec<u8>> = vec!\[(.*?)\n\s*\];', text, re.S)
    if m:
        vals = []
        for vm in re.finditer(r'vec!\[([^\]]*)\]', m.group(1)):
            vals.append([int(x) for x in vm.group(1).split(',') if x.strip()])
        r['values'] = vals
    return r


# <core::io::CustomOwner as Drop>::drop in the core library of Kani 0.68's pinned toolchain
IO_ERROR_DROP = '_RNvXsd_NtNtCs8xvirJzNMvV_4core2io5errorNtB5_11CustomOwnerNtNtNtB9_3ops4drop4Drop4drop'


def run_kani_job(scratch, job, playback=False, only=None):
    """job: dict(crate, harnesses[list], flags[list], timeout, features/no_default_features, jobs)."""
    crate = job['crate']
    kani_inject(scratch, crate)
    cfg = json.load(open(os.path.join(VERIF, 'kani', crate, 'inject.json')))
    cdir = os.path.join(scratch.repo, cfg['crate_dir'])
    harnesses = only or job['harnesses']
    cmd = ['cargo', 'kani', '--output-format', 'terse', '-Z', 'unstable-options',
           '--harness-timeout', f"{job.get('timeout', 600)}s"]
    # exact harness selection: our harness names are unique within a crate
    for h in harnesses:
        cmd += ['--harness', h]
    nj = job.get('jobs', min(16, max(1, len(harnesses))))
    if nj > 1 and not playback:
        cmd += ['-j', str(nj)]
    cmd += job.get('flags', [])
    if job.get('no_default_features'):
        cmd += ['--no-default-features']
    if job.get('features'):
        cmd += ['--features', ','.join(job['features'])]
    if playback:
        cmd += ['-Z', 'concrete-playback', '--concrete-playback=print']
    if job.get('io_error_unwind'):
        # Dropping a std::io::Error calls a *stored function pointer* (CustomOwner's drop function).
        # CBMC resolves it to every function of that type, among them drop glue that again contains
        # an io::Error: a recursion CBMC unrolls up to the harness' unwind bound with a branching
        # factor of 4-5 (measured: > 13 min against 34 s).  The recursion limit of that one function
        # is set to 2; CBMC's *recursion unwinding assertion* (on by default in CBMC 6) then proves
        # for every harness that no feasible path goes deeper, so nothing is cut off silently.
        cmd += ['--cbmc-args', '--unwindset', IO_ERROR_DROP + ':' + str(job['io_error_unwind'])]
    env = dict(os.environ)
    env['CARGO_NET_OFFLINE'] = 'true'
    env['CARGO_TARGET_DIR'] = os.path.join(scratch.dir, 'target-kani-' + crate + ('-' + job['tag'] if job.get('tag') else ''))
    if True:
        # (always set: jobs of one check share the scratch copy, so a dependency may already carry
        # another job's injected harness module that needs the feature)
        # harnesses build a core::fmt::Formatter directly (unstable `formatting_options`, available on
        # Kani's nightly) so that Display/Debug impls are called statically instead of through the
        # function pointers of fmt::Arguments, which CBMC cannot resolve cheaply
        env['RUSTFLAGS'] = (env.get('RUSTFLAGS', '') + ' -Zcrate-attr=feature(formatting_options)').strip()
    for m in job.get('_skip', []):
        env['RUSTFLAGS'] += f' --cfg verif_skip_{m}'
    t0 = time.time()
    total_to = job.get('total_timeout', job.get('timeout', 600) * max(1, (len(harnesses) + nj - 1) // nj) + 600)
    killed = []
    out = run_watched(cmd, cdir, env, total_to, env['CARGO_TARGET_DIR'], job.get('mem_gb', 10), killed)
    wall = time.time() - t0
    if 'could not compile' in out and len(job.get('_skip', [])) < 6:
        # A harness module does not compile against the current tree (an item it is anchored in was
        # renamed or removed).  Switch off exactly the modules the compiler points at and run the
        # rest; the harnesses of the switched-off modules are reported undecided ("lost anchor").
        bad = set()
        foreign = False
        lines = out.split('\n')
        for k, l in enumerate(lines):
            if not l.startswith('error') or l.startswith('error: could not compile') or l.startswith('error: Failed'):
                continue
            # the location of an error is the first `-->` line after it (warnings have locations too)
            for l2 in lines[k + 1:k + 4]:
                m = re.search(r'-->\s+(\S+?):\d+:\d+', l2)
                if m:
                    path = m.group(1)
                    if '/verif_kani/' in path:
                        bad.add(os.path.basename(path)[:-3])
                    else:
                        foreign = True
                    break
        names = {c['file'][:-3]: c['name'] for c in cfg.get('children', [])}
        skip = sorted({names.get(b, b) for b in bad} - set(job.get('_skip', [])))
        core_mods = {'vk', 'mod'}
        if skip and not foreign and not (set(skip) & core_mods):
            where = {}
            for fn in os.listdir(os.path.join(cdir, 'src', 'verif_kani')):
                if fn.endswith('.rs'):
                    t = open(os.path.join(cdir, 'src', 'verif_kani', fn)).read()
                    for h in harnesses:
                        if re.search(r'fn\s+' + re.escape(h) + r'\b|!\(\s*' + re.escape(h) + r'\s*,', t):
                            where.setdefault(h, names.get(fn[:-3], fn[:-3]))
            lost = [h for h in harnesses if where.get(h) in skip]
            rest = [h for h in harnesses if h not in lost]
            first_err = tail_errors(out)
            results = []
            if rest:
                j2 = dict(job)
                j2['_skip'] = list(job.get('_skip', [])) + skip
                results = run_kani_job(scratch, j2, playback=playback, only=rest)
            for h in lost:
                results.append({'engine': 'kani', 'harness': h, 'result': UNDECIDED, 'checks': 0, 'failed': 0, 'failures': [],
                                'covers': (0, 0), 'time_s': 0.0, 'values': None, 'crate': crate, 'cmd': ' '.join(cmd), 'job_wall_s': wall, 'raw': out[-3000:],
                                'reason': f'lost anchor: harness module {where.get(h)} does not compile against the current tree: ' + first_err})
            order = {h: i for i, h in enumerate(harnesses)}
            results.sort(key=lambda r: order.get(r['harness'], 0))
            return results
    per = parse_kani(out)
    results = []
    for h in harnesses:
        key = None
        for k in per:
            if k.split('::')[-1] == h:
                key = k
        if key is None:
            r = {'engine': 'kani', 'harness': h, 'result': UNDECIDED, 'checks': 0, 'failed': 0, 'failures': [],
                 'covers': (0, 0), 'time_s': 0.0, 'values': None,
                 'reason': 'harness did not run (compile error, lost anchor or time-out): ' + tail_errors(out)}
        else:
            r = classify_kani(h, per[key])
            r['path'] = key
        r['crate'] = crate
        r['cmd'] = ' '.join(c for c in cmd if True)
        r['job_wall_s'] = wall
        r['raw'] = per.get(key, out[-3000:]) if key else out[-3000:]
        results.append(r)
    if job.get('io_error_unwind'):
        # the function is not part of some harness' goto program (no io::Error in reach, or the
        # toolchain changed): CBMC rejects the option ("invalid loop identifier", shown by Kani only
        # as "CBMC failed with status 1"); those harnesses run again without the limit
        again = [r['harness'] for r in results if r['result'] == UNDECIDED and
                 ('CBMC failed with status' in (r.get('reason') or '') + str(r.get('raw') or '') or 'invalid loop identifier' in str(r.get('raw') or ''))]
        if again:
            j2 = dict(job)
            j2.pop('io_error_unwind')
            redo = {r['harness']: r for r in run_kani_job(scratch, j2, playback=playback, only=again)}
            results = [redo.get(r['harness'], r) for r in results]
    return results


CHILD_GROUPS = set()


def kill_children():
    for pg in list(CHILD_GROUPS):
        try:
            os.killpg(pg, 9)
        except Exception:
            pass


def run_watched(cmd, cwd, env, timeout, marker, mem_gb, killed):
    """Run a command; a watchdog kills any cbmc child of this job whose RSS exceeds mem_gb
    (no swap on this machine: a runaway SAT instance would take the box down)."""
    logf = tempfile.TemporaryFile(mode='w+')
    p = subprocess.Popen(cmd, cwd=cwd, env=env, stdout=logf, stderr=subprocess.STDOUT, text=True, start_new_session=True)
    CHILD_GROUPS.add(p.pid)
    t0 = time.time()
    timed_out = False
    while True:
        try:
            p.wait(timeout=3)
            break
        except subprocess.TimeoutExpired:
            pass
        if time.time() - t0 > timeout:
            timed_out = True
            try:
                os.killpg(p.pid, 9)
            except Exception:
                pass
            break
        for pid in os.listdir('/proc'):
            if not pid.isdigit():
                continue
            try:
                cl = open(f'/proc/{pid}/cmdline', 'rb').read().decode(errors='replace')
                if marker not in cl or 'cbmc' not in cl.split('\0')[0]:
                    continue
                rss = 0
                for ln in open(f'/proc/{pid}/status'):
                    if ln.startswith('VmRSS:'):
                        rss = int(ln.split()[1])
                if rss > mem_gb * 1024 * 1024:
                    os.kill(int(pid), 9)
                    killed.append(cl[-120:].replace('\0', ' '))
            except Exception:
                continue
    CHILD_GROUPS.discard(p.pid)
    try:
        os.killpg(p.pid, 9)   # stray cbmc children of a finished driver
    except Exception:
        pass
    logf.seek(0)
    out = logf.read()
    logf.close()
    if timed_out:
        out += '\nVERIF: cargo kani timed out'
    for k in killed:
        out += f'\nVERIF: watchdog killed cbmc over {mem_gb} GB: {k}'
    return out


def tail_errors(out):
    errs = [l for l in out.split('\n') if l.startswith('error')]
    return ' | '.join(errs[:4]) if errs else out[-400:].replace('\n', ' | ')


def native_replay(scratch, crate, harness, values, expect_msgs, features=None, no_default_features=False, fmt_direct=False):
    """Run the same harness source natively (`--cfg verif_replay`) with the recorded values."""
    kani_inject(scratch, crate)
    cfg = json.load(open(os.path.join(VERIF, 'kani', crate, 'inject.json')))
    cdir = os.path.join(scratch.repo, cfg['crate_dir'])
    env = dict(os.environ)
    env['CARGO_NET_OFFLINE'] = 'true'
    env['RUSTFLAGS'] = (env.get('RUSTFLAGS', '') + ' --cfg verif_replay -A warnings').strip()
    env['CARGO_TARGET_DIR'] = os.path.join(scratch.dir, 'target-replay')
    env['VERIF_REPLAY_VALUES'] = ';'.join(','.join(str(b) for b in grp) for grp in (values or []))
    cmd = ['cargo', 'test', '--offline', '--lib']
    if fmt_direct:
        cmd = ['cargo', '+nightly', 'test', '--offline', '--lib']
        env['RUSTFLAGS'] += ' -Zcrate-attr=feature(formatting_options)'
    if no_default_features:
        cmd += ['--no-default-features']
    if features:
        cmd += ['--features', ','.join(features)]
    cmd += ['--', harness, '--nocapture', '--test-threads', '1']
    try:
        p = subprocess.run(cmd, cwd=cdir, env=env, capture_output=True, text=True, timeout=1200)
    except subprocess.TimeoutExpired:
        return {'confirmed': False, 'note': 'native replay timed out', 'output': ''}
    out = p.stdout + '\n' + p.stderr
    ran = re.search(r'test .*' + re.escape(harness) + r' \.\.\. (ok|FAILED)', out)
    panicked = 'panicked at' in out
    hit = [m for m in expect_msgs if m and m in out]
    # confirmed only when the native run fails with the *same* obligation message
    confirmed = bool(panicked and hit)
    note = 'native run of the harness with the counterexample values ' + ('panicked' if panicked else 'did not panic')
    if 'VERIF-REPLAY: assumption violated' in out:
        note = 'recorded values violate a harness assumption natively'
        confirmed = False
    if p.returncode != 0 and not ran and not panicked:
        note = 'native replay build failed: ' + tail_errors(out)
    return {'confirmed': confirmed, 'note': note, 'output': out[-6000:], 'cmd': 'VERIF_REPLAY_VALUES=' + env['VERIF_REPLAY_VALUES'] + ' RUSTFLAGS="--cfg verif_replay" ' + ' '.join(cmd)}
