#!/usr/bin/env python3
"""Run the registered checks against the stored property-breaking changes.

  tools/seedtest.py [--tier quick] [name ...]

For every /verif/seeded/<name>/ (patch.diff + meta.json naming the property) and
/verif/selftest/<name>/ (reverse patches of the `fix:` commits): apply the patch to
/repo's working tree, run `./check <property>`, require exit 1 with a VIOLATION line,
and undo the patch (git checkout -- .) straight afterwards.  /repo must be clean.
Not part of the MANIFEST commands; used while building to see which checks catch what.
"""
import json
import os
import subprocess
import sys
import time

VERIF = os.path.dirname(os.path.dirname(os.path.abspath(__file__)))
REPO = '/repo'


def sh(cmd, **kw):
    return subprocess.run(cmd, shell=True, capture_output=True, text=True, **kw)


def main():
    args = [a for a in sys.argv[1:] if not a.startswith('--')]
    tier = 'quick'
    if '--tier' in sys.argv:
        tier = sys.argv[sys.argv.index('--tier') + 1]
        args = [a for a in args if a != tier]
    # work on a throw-away git worktree of /repo's HEAD so that other checks can run meanwhile
    global REPO
    import tempfile
    wt = tempfile.mkdtemp(prefix='anstyle-seedtest.')
    os.rmdir(wt)
    r = sh(f'git -C /repo worktree add --detach {wt} HEAD')
    if r.returncode != 0:
        print('cannot create worktree:', r.stderr)
        sys.exit(2)
    REPO = wt
    os.environ['VERIF_REPO'] = wt
    try:
        run(args, tier)
    finally:
        sh(f'git -C /repo worktree remove --force {wt}')


def run(args, tier):
    dirs = []
    for base in ('seeded', 'selftest'):
        b = os.path.join(VERIF, base)
        if os.path.isdir(b):
            for n in sorted(os.listdir(b)):
                if os.path.exists(os.path.join(b, n, 'patch.diff')) and (not args or n in args):
                    dirs.append(os.path.join(b, n))
    results = []
    for d in dirs:
        meta = json.load(open(os.path.join(d, 'meta.json')))
        props = meta.get('checks') or [meta['property']]
        ap = sh(f'git -C {REPO} apply {d}/patch.diff')
        if ap.returncode != 0:
            results.append((os.path.basename(d), props, 'PATCH DOES NOT APPLY: ' + ap.stderr.strip()[:200]))
            continue
        try:
            for pid in props:
                t0 = time.time()
                r = sh(f'./check {pid} --tier {tier}', cwd=VERIF, timeout=7200)
                viol = [l for l in r.stdout.split('\n') if l.startswith('VIOLATION')]
                obl = [l.strip() for l in r.stderr.split('\n') if 'failed obligation' in l][:4]
                verdict = 'CAUGHT' if r.returncode == 1 and viol else ('UNDECIDED' if r.returncode == 2 else 'MISSED')
                results.append((os.path.basename(d), pid, f'{verdict} rc={r.returncode} {time.time() - t0:.0f}s ' + ' | '.join(viol[:2]) + ' || ' + ' | '.join(obl)))
                print(results[-1], flush=True)
        finally:
            sh(f'git -C {REPO} checkout -- .')
    print('\n==== summary')
    for r in results:
        print(r)
    return results


if __name__ == '__main__':
    main()
