//! C19 (atomic register encoding) / C09 (global choice): AtomicChoice is a total, injective encoding
#![allow(dead_code, unused_imports, missing_docs, unreachable_pub, clippy::all)]
pub(crate) mod vk;
use crate::{AtomicChoice, ColorChoice};

fn choice_of(i: u8) -> ColorChoice {
    match i {
        0 => ColorChoice::Auto,
        1 => ColorChoice::AlwaysAnsi,
        2 => ColorChoice::Always,
        _ => ColorChoice::Never,
    }
}

/// to_choice . from_choice == Some for all four, None outside the image, set stores only image values
#[cfg_attr(kani, kani::proof)]
#[cfg_attr(not(kani), test)]
fn choice_encoding_total() {
    let c = choice_of(vk::any_u8_in(0, 3));
    let n = AtomicChoice::from_choice(c);
    assert!(AtomicChoice::to_choice(n) == Some(c), "to_choice(from_choice(c)) == Some(c)");
    let d = choice_of(vk::any_u8_in(0, 3));
    assert!((AtomicChoice::from_choice(d) == n) == (d == c), "from_choice is injective");
    let raw = vk::any_usize();
    let back = AtomicChoice::to_choice(raw);
    assert!(back.is_some() == (raw < 4), "to_choice is None exactly outside the image of from_choice");
    // register semantics (sequential): a read returns the initial value or the last write; get never panics
    let a = AtomicChoice::new();
    assert!(a.get() == ColorChoice::Auto, "the register starts as Auto");
    a.set(c);
    assert!(a.get() == c, "a read returns the last value written");
    a.set(d);
    assert!(a.get() == d, "a later write wins");
    assert!(ColorChoice::default() == ColorChoice::Auto, "default is Auto");
}
