//! C05 — rendered styles are pure SGR and round-trip through the S4 interpreter.
//!
//! Compositional (symbolic runs through core::fmt do not finish in CBMC, measured):
//!   1. every colour buffer interprets to its colour in its slot   (color_private.rs, complete)
//!   2. every effect's escape interprets to exactly that effect     (render_effect_escapes, complete)
//!   3. Effects::write_to / Style::write_to write the parts of 1-2 in the order
//!      effects, fg, bg, underline, for every style                 (symbolic, io::Write path, complete)
//!   4. interpretation of a concatenation of pure-SGR strings is the composition of the
//!      interpretations (sgr_bytes is a left fold over sequences), each part touching only its
//!      slot/bit => the whole output interprets to exactly the style
//!   5. the Display paths produce the same bytes as the io::Write path, and format flags never
//!      pad or truncate: checked on concrete styles only — BOUNDED
#![allow(dead_code, unused_imports, missing_docs, unreachable_pub, clippy::all)]
use super::spec_sgr::*;
use super::util::*;
use super::vk;
use crate::{Ansi256Color, AnsiColor, Color, Effects, Reset, RgbColor, Style};
use core::fmt::Write as _;

/// 2. each of the twelve escapes is one SGR sequence that sets exactly its own effect (additive reading)
#[cfg_attr(kani, kani::proof, kani::unwind(16))]
#[cfg_attr(not(kani), test)]
fn render_effect_escapes() {
    let mut i = 0;
    while i < 12 {
        let mut out: Buf<8> = Buf::new();
        let r = crate::Style::new().effects(ALL[i]).write_to(&mut out);
        assert!(r.is_ok() && !out.overflow && out.len > 0, "an effect renders into a short escape");
        let mut want = M_DEFAULT;
        want.eff = 1 << i;
        assert!(sgr_bytes(M_DEFAULT, &out.b, out.len, true) == Pure::Ok(want), "the escape of an effect is pure SGR and sets exactly that effect");
        i += 1;
    }
}

/// records the slices handed to write_all (no copying: symbolic-index buffer writes are what made
/// the byte-comparing version of this harness run out of memory)
struct CallRec {
    calls: usize,
    ptr: [usize; 16],
    len: [usize; 16],
}

impl std::io::Write for CallRec {
    fn write(&mut self, buf: &[u8]) -> std::io::Result<usize> {
        Ok(buf.len())
    }
    fn write_all(&mut self, buf: &[u8]) -> std::io::Result<()> {
        if self.calls < 16 {
            self.ptr[self.calls] = buf.as_ptr() as usize;
            self.len[self.calls] = buf.len();
        }
        self.calls += 1;
        Ok(())
    }
    fn flush(&mut self) -> std::io::Result<()> {
        Ok(())
    }
}

/// 3a. Effects::write_to writes the members' escapes in declaration order, nothing else (all 4096 sets)
#[cfg_attr(kani, kani::proof, kani::unwind(14))]
#[cfg_attr(not(kani), test)]
fn render_effects_concat() {
    let (e, bits) = any_effects();
    let mut w = CallRec { calls: 0, ptr: [0; 16], len: [0; 16] };
    let r = e.write_to(&mut w);
    assert!(r.is_ok(), "writing effects to a good writer succeeds");
    let mut k = 0;
    let mut i = 0;
    while i < 12 {
        if bits & (1 << i) != 0 {
            let esc = crate::effect::METADATA[i].escape;
            assert!(k < w.calls && w.ptr[k] == esc.as_ptr() as usize && w.len[k] == esc.len(), "a set of effects renders as the escapes of its members in declaration order");
            k += 1;
        }
        i += 1;
    }
    assert!(k == w.calls, "nothing but the members' escapes is written");
    vk::vk_cover!(bits == 4095, "all effects");
}

// 3b. Style::write_to against its callees' contracts: the four part writers are replaced by recorders
static mut PARTS: [(u8, u16, Option<Color>); 6] = [(0, 0, None); 6];
static mut PARTS_N: usize = 0;
static mut FAIL_AT: usize = 99;

fn record(kind: u8, bits: u16, c: Option<Color>) -> std::io::Result<()> {
    unsafe {
        let i = PARTS_N;
        if i < 6 {
            PARTS[i] = (kind, bits, c);
        }
        PARTS_N += 1;
        if i == FAIL_AT {
            return Err(std::io::ErrorKind::Other.into());
        }
    }
    Ok(())
}

fn stub_effects_write_to(e: Effects, _w: &mut dyn std::io::Write) -> std::io::Result<()> {
    record(0, bits_of(e), None)
}
fn stub_fg(c: Color, _w: &mut dyn std::io::Write) -> std::io::Result<()> {
    record(1, 0, Some(c))
}
fn stub_bg(c: Color, _w: &mut dyn std::io::Write) -> std::io::Result<()> {
    record(2, 0, Some(c))
}
fn stub_ul(c: Color, _w: &mut dyn std::io::Write) -> std::io::Result<()> {
    record(3, 0, Some(c))
}

/// Style::write_to == effects, then fg, bg, underline colour (each only if set), stopping at the
/// first error — for every style (modular: the part writers are verified in 1., 2., 3a.)
#[cfg_attr(kani, kani::proof, kani::unwind(14),
    kani::stub(crate::Effects::write_to, stub_effects_write_to),
    kani::stub(crate::Color::write_fg_to, stub_fg),
    kani::stub(crate::Color::write_bg_to, stub_bg),
    kani::stub(crate::Color::write_underline_to, stub_ul))]
fn render_style_concat() {
    let s = any_style();
    let fail_at = vk::any_usize_in(0, 5);
    unsafe {
        FAIL_AT = fail_at;
    }
    let mut sink: Buf<4> = Buf::new();
    let r = s.write_to(&mut sink);
    let mut want: [(u8, u16, Option<Color>); 4] = [(9, 0, None); 4];
    let mut n = 0;
    want[n] = (0, bits_of(s.get_effects()), None);
    n += 1;
    if let Some(c) = s.get_fg_color() {
        want[n] = (1, 0, Some(c));
        n += 1;
    }
    if let Some(c) = s.get_bg_color() {
        want[n] = (2, 0, Some(c));
        n += 1;
    }
    if let Some(c) = s.get_underline_color() {
        want[n] = (3, 0, Some(c));
        n += 1;
    }
    let done = unsafe { PARTS_N };
    let expect_done = if fail_at < n { fail_at + 1 } else { n };
    assert!(done == expect_done, "a style writes effects, foreground, background, underline colour — each set part once, stopping at the first error");
    let mut i = 0;
    while i < 4 {
        if i < done {
            assert!(unsafe { PARTS[i] } == want[i], "a style renders as effects, foreground, background, underline colour, in that order");
        }
        i += 1;
    }
    assert!(r.is_err() == (fail_at < n), "an inner error surfaces from Style::write_to and is never turned into success");
    vk::vk_cover!(n == 4 && r.is_ok(), "all four parts");
}

/// reset form through the io::Write path: empty iff plain, otherwise restores the default state (every style)
#[cfg_attr(kani, kani::proof, kani::unwind(13))]
#[cfg_attr(not(kani), test)]
fn render_reset_io() {
    let s = any_style();
    let plain = s == Style::new();
    let mut c: Buf<8> = Buf::new();
    let rc = s.write_reset_to(&mut c);
    assert!(rc.is_ok() && !c.overflow, "write_reset_to does not fail on a good writer");
    if plain {
        assert!(c.len == 0, "reset of a plain style is empty");
    } else {
        assert!(c.len > 0, "reset of a non-plain style is not empty");
        let any_state = MStyle { fg: MColor::Idx(vk::any_u8()), bg: MColor::Ansi(3), ul: MColor::Rgb(1, 2, 3), eff: vk::any_u16() & 4095 };
        assert!(sgr_bytes(any_state, &c.b, c.len, false) == Pure::Ok(M_DEFAULT), "reset is pure SGR and restores the default state");
    }
    assert!(plain == s.is_plain(), "Style::new() is the plain style");
    vk::vk_cover!(plain, "plain style");
    vk::vk_cover!(!plain, "non-plain style");
}

// ---- 5. Display paths and format flags: every style x every flag combination ----
//
// The harness builds a core::fmt::Formatter directly (unstable `formatting_options`, available on
// Kani's nightly and on the nightly used for native replay) and calls the Display impls
// statically: going through format_args! means function pointers inside fmt::Arguments, on which
// CBMC does not finish for symbolic data (measured).  Width, fill, alignment, precision, zero
// padding and the alternate flag are all symbolic.

/// records every non-empty piece handed to write_str / write_all, copied at fixed positions
struct Pieces {
    calls: usize,
    len: [usize; 16],
    data: [[u8; 19]; 16],
    too_long: bool,
}

impl Pieces {
    fn new() -> Self {
        Pieces { calls: 0, len: [0; 16], data: [[0; 19]; 16], too_long: false }
    }
    fn take(&mut self, b: &[u8]) {
        if b.is_empty() {
            return;
        }
        if b.len() > 19 || self.calls >= 16 {
            self.too_long = true;
            return;
        }
        let i = self.calls;
        self.len[i] = b.len();
        let mut k = 0;
        while k < 19 {
            if k < b.len() {
                self.data[i][k] = b[k];
            }
            k += 1;
        }
        self.calls += 1;
    }
    fn same(&self, o: &Pieces) -> bool {
        if self.too_long || o.too_long || self.calls != o.calls {
            return false;
        }
        let mut i = 0;
        while i < 16 {
            if i < self.calls {
                if self.len[i] != o.len[i] {
                    return false;
                }
                let mut k = 0;
                while k < 19 {
                    if k < self.len[i] && self.data[i][k] != o.data[i][k] {
                        return false;
                    }
                    k += 1;
                }
            }
            i += 1;
        }
        true
    }
}

impl core::fmt::Write for Pieces {
    fn write_str(&mut self, s: &str) -> core::fmt::Result {
        self.take(s.as_bytes());
        Ok(())
    }
}

impl std::io::Write for Pieces {
    fn write(&mut self, b: &[u8]) -> std::io::Result<usize> {
        self.take(b);
        Ok(b.len())
    }
    fn write_all(&mut self, b: &[u8]) -> std::io::Result<()> {
        self.take(b);
        Ok(())
    }
    fn flush(&mut self) -> std::io::Result<()> {
        Ok(())
    }
}

fn any_options() -> core::fmt::FormattingOptions {
    let mut o = core::fmt::FormattingOptions::new();
    o.alternate(vk::any_bool());
    o.sign_aware_zero_pad(vk::any_bool());
    o.fill(if vk::any_bool() { ' ' } else { '*' });
    o.align(match vk::any_u8_in(0, 3) {
        0 => None,
        1 => Some(core::fmt::Alignment::Left),
        2 => Some(core::fmt::Alignment::Right),
        _ => Some(core::fmt::Alignment::Center),
    });
    o.width(if vk::any_bool() { Some(vk::any_u16()) } else { None });
    o.precision(if vk::any_bool() { Some(vk::any_u16()) } else { None });
    o
}

fn sample_style(k: u8) -> Style {
    match k {
        0 => Style::new(),
        1 => Style::new().bold(),
        2 => Style::new().fg_color(Some(Color::Ansi(AnsiColor::BrightBlue))).underline(),
        3 => Style::new().bg_color(Some(Color::Ansi256(Ansi256Color(7)))).underline_color(Some(Color::Ansi(AnsiColor::Red))),
        _ => Style::new().fg_color(Some(Color::Rgb(RgbColor(255, 0, 99)))).effects(Effects::CURLY_UNDERLINE | Effects::STRIKETHROUGH),
    }
}

/// `{}` / `{:#}` with any width, fill, alignment, precision and zero padding write exactly the
/// pieces the io::Write path writes: no padding, no truncation.  The style is one of five concrete
/// samples per harness (a symbolic style together with symbolic flags runs out of memory in
/// CBMC, measured) — BOUNDED in the style, complete in the flags; that every style's io::Write
/// output is the concatenation of its parts is render_style_concat (complete).
fn display_matches_io(k: u8) {
    let s = sample_style(k);
    let o = any_options();
    let alternate = o.get_alternate();
    let mut d = Pieces::new();
    let r = {
        let mut f = core::fmt::Formatter::new(&mut d, o);
        core::fmt::Display::fmt(&s, &mut f)
    };
    assert!(r.is_ok(), "formatting a style does not fail");
    let mut w = Pieces::new();
    let rw = if alternate { s.write_reset_to(&mut w) } else { s.write_to(&mut w) };
    assert!(rw.is_ok(), "writing a style to a good writer does not fail");
    assert!(d.same(&w), "the Display path with any width, fill, alignment and precision produces the bytes of the io::Write path: no padding, no truncation");
    // the other Display entry points
    let mut d2 = Pieces::new();
    {
        let mut f = core::fmt::Formatter::new(&mut d2, o);
        let _ = if alternate { core::fmt::Display::fmt(&s.render_reset(), &mut f) } else { core::fmt::Display::fmt(&s.render(), &mut f) };
    }
    assert!(d2.same(&w), "Style::render() / render_reset() display the same bytes whatever the format flags");
    vk::vk_cover!(alternate && o.get_width().is_some(), "reset form with a width");
    vk::vk_cover!(!alternate && o.get_precision().is_some(), "style with a precision");
}

macro_rules! display_case {
    ($name:ident, $k:expr) => {
        #[cfg_attr(kani, kani::proof, kani::unwind(20))]
        #[cfg_attr(not(kani), test)]
        fn $name() {
            display_matches_io($k);
        }
    };
}
display_case!(render_display_matches_io_s0, 0);
display_case!(render_display_matches_io_s1, 1);
display_case!(render_display_matches_io_s2, 2);
display_case!(render_display_matches_io_s3, 3);
display_case!(render_display_matches_io_s4, 4);

/// `Style::render_reset()` under sixteen CONCRETE width / precision combinations: exactly the
/// reset sequence for a non-plain style and nothing for the plain one — no padding, no truncation.
/// (The display harnesses above are complete in the flags on the current tree, where the value
/// ignores them; on a tree where it does not, symbolic width / precision drive std's padding and
/// truncation loops and CBMC does not finish — undecided.  This concrete twin then still decides.)
fn reset_under(width: Option<u16>, precision: Option<u16>, plain: bool) {
    let mut o = core::fmt::FormattingOptions::new();
    o.fill('*');
    o.align(Some(core::fmt::Alignment::Right));
    o.width(width);
    o.precision(precision);
    let style = if plain { Style::new() } else { Style::new().bold() };
    let mut d: Buf<24> = Buf::new();
    {
        let mut f = core::fmt::Formatter::new(&mut d, o);
        let _ = core::fmt::Display::fmt(&style.render_reset(), &mut f);
    }
    if plain {
        assert!(d.len == 0, "the reset of a plain style is empty whatever the format flags");
    } else {
        assert!(d.len == 4 && d.b[0] == 0x1b && d.b[1] == b'[' && d.b[2] == b'0' && d.b[3] == b'm', "the reset of a non-plain style is exactly the reset sequence whatever the format flags: no padding, no truncation");
    }
}

#[cfg_attr(kani, kani::proof, kani::unwind(16))]
#[cfg_attr(not(kani), test)]
fn render_style_reset_small_flags() {
    let ws = [None, Some(0u16), Some(3), Some(10)];
    let ps = [None, Some(0u16), Some(1), Some(10)];
    let mut i = 0;
    while i < 4 {
        let mut j = 0;
        while j < 4 {
            reset_under(ws[i], ps[j], false);
            j += 1;
        }
        reset_under(ws[i], None, true);
        i += 1;
    }
}

/// Reset renders a reset
#[cfg_attr(kani, kani::proof, kani::unwind(16))]
#[cfg_attr(not(kani), test)]
fn render_reset_value() {
    let mut d: Buf<8> = Buf::new();
    {
        let mut f = core::fmt::Formatter::new(&mut d, any_options());
        let _ = core::fmt::Display::fmt(&Reset, &mut f);
    }
    let from = MStyle { fg: MColor::Idx(vk::any_u8()), bg: MColor::Ansi(3), ul: MColor::Rgb(1, 2, 3), eff: vk::any_u16() & 4095 };
    assert!(sgr_bytes(from, &d.b, d.len, false) == Pure::Ok(M_DEFAULT) && d.len > 0, "Reset renders a pure-SGR reset whatever the format flags");
}
