//! C05 — rendered styles are pure SGR and round-trip through the S4 interpreter.
//!
//! Compositional (symbolic runs through core::fmt do not finish in CBMC, measured):
//!   1. every colour buffer interprets to its colour in its slot   (color_private.rs, complete)
//!   2. every effect's escape interprets to exactly that effect     (render_effect_escapes, complete)
//!   3. Effects::write_to / Style::write_to write the parts of 1-2 in the order
//!      effects, fg, bg, underline, for every style                 (symbolic, io::Write path, complete)
//!   4. interpretation of a concatenation of pure-SGR strings is the composition of the
//!      interpretations (sgr_bytes is a left fold over sequences), each part touching only its
//!      slot/bit => the whole output interprets to exactly the style
//!   5. the Display paths produce the same bytes as the io::Write path, and format flags never
//!      pad or truncate: checked on concrete styles only — BOUNDED
#![allow(dead_code, unused_imports, missing_docs, unreachable_pub, clippy::all)]
use super::spec_sgr::*;
use super::util::*;
use super::vk;
use crate::{Ansi256Color, AnsiColor, Color, Effects, Reset, RgbColor, Style};
use core::fmt::Write as _;

/// 2. each of the twelve escapes is one SGR sequence that sets exactly its own effect (additive reading)
#[cfg_attr(kani, kani::proof, kani::unwind(10))]
#[cfg_attr(not(kani), test)]
fn render_effect_escapes() {
    let mut i = 0;
    while i < 12 {
        let mut out: Buf<8> = Buf::new();
        let r = crate::Style::new().effects(ALL[i]).write_to(&mut out);
        assert!(r.is_ok() && !out.overflow && out.len > 0, "an effect renders into a short escape");
        let mut want = M_DEFAULT;
        want.eff = 1 << i;
        assert!(sgr_bytes(M_DEFAULT, &out.b, out.len, true) == Pure::Ok(want), "the escape of an effect is pure SGR and sets exactly that effect");
        i += 1;
    }
}

/// 3a. Effects::write_to writes the members' escapes in declaration order, nothing else (all 4096 sets)
#[cfg_attr(kani, kani::proof, kani::unwind(61))]
#[cfg_attr(not(kani), test)]
fn render_effects_concat() {
    let (e, bits) = any_effects();
    let mut out: Buf<60> = Buf::new();
    let r = Style::new().effects(e).write_to(&mut out);
    assert!(r.is_ok() && !out.overflow, "effects render into at most 55 bytes");
    let mut want: Buf<60> = Buf::new();
    let mut i = 0;
    while i < 12 {
        if bits & (1 << i) != 0 {
            let _ = Style::new().effects(ALL[i]).write_to(&mut want);
        }
        i += 1;
    }
    assert!(out.same(&want), "a set of effects renders as the escapes of its members in declaration order");
    vk::vk_cover!(bits == 4095, "all effects");
}

/// 3b. Style::write_to == effects ++ fg ++ bg ++ underline, for every style
#[cfg_attr(kani, kani::proof, kani::unwind(116))]
#[cfg_attr(not(kani), test)]
fn render_style_concat() {
    let s = any_style();
    let mut out: Buf<114> = Buf::new();
    let r = s.write_to(&mut out);
    assert!(r.is_ok() && !out.overflow, "a style renders into at most 112 bytes");
    let mut want: Buf<114> = Buf::new();
    let _ = Style::new().effects(s.get_effects()).write_to(&mut want);
    let _ = Style::new().fg_color(s.get_fg_color()).write_to(&mut want);
    let _ = Style::new().bg_color(s.get_bg_color()).write_to(&mut want);
    let _ = Style::new().underline_color(s.get_underline_color()).write_to(&mut want);
    assert!(out.same(&want), "a style renders as effects, foreground, background, underline colour, in that order");
}

/// reset form through the io::Write path: empty iff plain, otherwise restores the default state (every style)
#[cfg_attr(kani, kani::proof, kani::unwind(13))]
#[cfg_attr(not(kani), test)]
fn render_reset_io() {
    let s = any_style();
    let plain = s == Style::new();
    let mut c: Buf<8> = Buf::new();
    let rc = s.write_reset_to(&mut c);
    assert!(rc.is_ok() && !c.overflow, "write_reset_to does not fail on a good writer");
    if plain {
        assert!(c.len == 0, "reset of a plain style is empty");
    } else {
        assert!(c.len > 0, "reset of a non-plain style is not empty");
        let any_state = MStyle { fg: MColor::Idx(vk::any_u8()), bg: MColor::Ansi(3), ul: MColor::Rgb(1, 2, 3), eff: vk::any_u16() & 4095 };
        assert!(sgr_bytes(any_state, &c.b, c.len, false) == Pure::Ok(M_DEFAULT), "reset is pure SGR and restores the default state");
    }
    assert!(plain == s.is_plain(), "Style::new() is the plain style");
    vk::vk_cover!(plain, "plain style");
    vk::vk_cover!(!plain, "non-plain style");
}

// ---- 5. Display paths and format flags on concrete styles (BOUNDED: core::fmt with symbolic data does not finish) ----

fn sample_style(k: u8) -> Style {
    match k {
        0 => Style::new(),
        1 => Style::new().bold(),
        2 => Style::new().fg_color(Some(Color::Ansi(AnsiColor::BrightBlue))).underline(),
        3 => Style::new().bg_color(Some(Color::Ansi256(Ansi256Color(7)))).underline_color(Some(Color::Ansi(AnsiColor::Red))),
        _ => Style::new().fg_color(Some(Color::Rgb(RgbColor(255, 0, 99)))).effects(Effects::CURLY_UNDERLINE | Effects::STRIKETHROUGH),
    }
}

macro_rules! display_eq {
    ($name:ident, $k:expr) => {
        #[cfg_attr(kani, kani::proof, kani::unwind(50))]
        #[cfg_attr(not(kani), test)]
        fn $name() {
            let s = sample_style($k);
            let mut w: Buf<48> = Buf::new();
            let _ = s.write_to(&mut w);
            let mut d: Buf<48> = Buf::new();
            let r = core::fmt::write(&mut d, format_args!("{}", s));
            assert!(r.is_ok() && d.same(&w), "Display path and io::Write path produce the same bytes");
            let mut d2: Buf<48> = Buf::new();
            let _ = core::fmt::write(&mut d2, format_args!("{}", s.render()));
            assert!(d2.same(&w), "Style::render() displays like the style");
            assert!(sgr_bytes(M_DEFAULT, &w.b, w.len, true) == Pure::Ok(model_of(s)), "the rendered style interprets to exactly the style");
            // reset forms
            let mut a: Buf<48> = Buf::new();
            let _ = core::fmt::write(&mut a, format_args!("{:#}", s));
            let mut b: Buf<48> = Buf::new();
            let _ = core::fmt::write(&mut b, format_args!("{}", s.render_reset()));
            let mut c: Buf<48> = Buf::new();
            let _ = s.write_reset_to(&mut c);
            assert!(a.same(&c) && b.same(&c), "the three reset paths produce the same bytes");
        }
    };
}
display_eq!(render_display_eq_s0, 0);
display_eq!(render_display_eq_s1, 1);
display_eq!(render_display_eq_s2, 2);
display_eq!(render_display_eq_s3, 3);
display_eq!(render_display_eq_s4, 4);

macro_rules! flag_harness {
    ($name:ident, $fmt:literal, $base:literal, $k:expr) => {
        #[cfg_attr(kani, kani::proof, kani::unwind(50))]
        #[cfg_attr(not(kani), test)]
        fn $name() {
            let s = sample_style($k);
            let mut a: Buf<48> = Buf::new();
            let mut b: Buf<48> = Buf::new();
            let ra = core::fmt::write(&mut a, format_args!($fmt, s));
            let rb = core::fmt::write(&mut b, format_args!($base, s));
            assert!(ra.is_ok() && rb.is_ok(), "formatting does not fail");
            assert!(a.same(&b), concat!("format flags `", $fmt, "` produce the same bytes as `", $base, "`"));
        }
    };
}

flag_harness!(render_flags_width_right, "{:>10}", "{}", 2);
flag_harness!(render_flags_fill_center, "{:*^7}", "{}", 4);
flag_harness!(render_flags_precision, "{:<3.1}", "{}", 3);
flag_harness!(render_flags_alt_width, "{:#>8}", "{:#}", 1);
flag_harness!(render_flags_alt_precision, "{:#.2}", "{:#}", 2);
flag_harness!(render_flags_alt_fill_plain, "{:-<#12}", "{:#}", 0);

/// Reset renders a reset
#[cfg_attr(kani, kani::proof, kani::unwind(10))]
#[cfg_attr(not(kani), test)]
fn render_reset_value() {
    let mut d: Buf<8> = Buf::new();
    let _ = core::fmt::write(&mut d, format_args!("{}", Reset.render()));
    assert!(sgr_bytes(model_of(sample_style(4)), &d.b, d.len, false) == Pure::Ok(M_DEFAULT) && d.len > 0, "Reset renders a pure-SGR reset");
    let mut e: Buf<8> = Buf::new();
    let _ = core::fmt::write(&mut e, format_args!("{:>9}", Reset));
    assert!(e.same(&d), "Reset ignores width/alignment flags");
}
