//! C05 — rendered styles are pure SGR and round-trip through the S4 interpreter.
#![allow(dead_code, unused_imports, missing_docs, unreachable_pub, clippy::all)]
use super::spec_sgr::*;
use super::util::*;
use super::vk;
use crate::{Ansi256Color, AnsiColor, Color, Effects, Reset, RgbColor, Style};
use core::fmt::Write as _;

fn expect_slot(c: Color, slot: u8) -> MStyle {
    let mut m = M_DEFAULT;
    if slot == 0 {
        m.fg = mcolor(Some(c));
    } else if slot == 1 {
        m.bg = mcolor(Some(c));
    } else {
        m.ul = mcolor_underline(Some(c));
    }
    m
}

/// one colour in one slot, Display path: pure SGR, <= 19 bytes, interprets to exactly that slot
#[cfg_attr(kani, kani::proof, kani::unwind(24))]
#[cfg_attr(not(kani), test)]
fn render_color_display() {
    let c = any_color();
    let slot = vk::any_u8_in(0, 2);
    let mut out: Buf<24> = Buf::new();
    let r = if slot == 0 {
        core::fmt::write(&mut out, format_args!("{}", c.render_fg()))
    } else if slot == 1 {
        core::fmt::write(&mut out, format_args!("{}", c.render_bg()))
    } else {
        let s = Style::new().underline_color(Some(c));
        core::fmt::write(&mut out, format_args!("{}", s))
    };
    assert!(r.is_ok() && !out.overflow && out.len <= 19, "colour renders into at most 19 bytes");
    let got = sgr_bytes(M_DEFAULT, &out.b, out.len, false);
    assert!(got == Pure::Ok(expect_slot(c, slot)), "rendered colour is pure SGR and interprets to exactly that colour in that slot");
    vk::vk_cover!(matches!(c, Color::Rgb(_)) && slot == 2, "rgb underline");
    vk::vk_cover!(matches!(c, Color::Ansi(_)) && slot == 2, "palette colour as underline");
}

/// same through the io::Write path (Style::write_to with one colour set)
#[cfg_attr(kani, kani::proof, kani::unwind(24))]
#[cfg_attr(not(kani), test)]
fn render_color_io() {
    let c = any_color();
    let slot = vk::any_u8_in(0, 2);
    let s = if slot == 0 {
        Style::new().fg_color(Some(c))
    } else if slot == 1 {
        Style::new().bg_color(Some(c))
    } else {
        Style::new().underline_color(Some(c))
    };
    let mut out: Buf<24> = Buf::new();
    let r = s.write_to(&mut out);
    assert!(r.is_ok() && !out.overflow && out.len <= 19, "colour writes at most 19 bytes");
    let got = sgr_bytes(M_DEFAULT, &out.b, out.len, false);
    assert!(got == Pure::Ok(expect_slot(c, slot)), "written colour is pure SGR and interprets to exactly that colour in that slot");
}

/// AnsiColor / Ansi256Color / RgbColor render_fg / render_bg entry points agree with Color's
#[cfg_attr(kani, kani::proof, kani::unwind(24))]
#[cfg_attr(not(kani), test)]
fn render_color_entry_points() {
    let c = any_color();
    let fg = vk::any_bool();
    let mut a: Buf<24> = Buf::new();
    let mut b: Buf<24> = Buf::new();
    let _ = if fg { core::fmt::write(&mut a, format_args!("{}", c.render_fg())) } else { core::fmt::write(&mut a, format_args!("{}", c.render_bg())) };
    let _ = match (c, fg) {
        (Color::Ansi(x), true) => core::fmt::write(&mut b, format_args!("{}", x.render_fg())),
        (Color::Ansi(x), false) => core::fmt::write(&mut b, format_args!("{}", x.render_bg())),
        (Color::Ansi256(x), true) => core::fmt::write(&mut b, format_args!("{}", x.render_fg())),
        (Color::Ansi256(x), false) => core::fmt::write(&mut b, format_args!("{}", x.render_bg())),
        (Color::Rgb(x), true) => core::fmt::write(&mut b, format_args!("{}", x.render_fg())),
        (Color::Rgb(x), false) => core::fmt::write(&mut b, format_args!("{}", x.render_bg())),
    };
    let ga = sgr_bytes(M_DEFAULT, &a.b, a.len, false);
    let gb = sgr_bytes(M_DEFAULT, &b.b, b.len, false);
    assert!(ga == gb && ga == Pure::Ok(expect_slot(c, if fg { 0 } else { 1 })), "per-type render_fg/render_bg denote the same colour as Color::render_*");
}

/// all 4096 effect sets: pure SGR, interprets to exactly the set (Display and io paths)
#[cfg_attr(kani, kani::proof, kani::unwind(64))]
#[cfg_attr(not(kani), test)]
fn render_effects_all() {
    let (e, bits) = any_effects();
    let mut out: Buf<60> = Buf::new();
    let r = core::fmt::write(&mut out, format_args!("{}", e.render()));
    assert!(r.is_ok() && !out.overflow, "effects render into at most 55 bytes");
    let got = sgr_bytes(M_DEFAULT, &out.b, out.len, true);
    let mut want = M_DEFAULT;
    want.eff = bits;
    assert!(got == Pure::Ok(want), "rendered effects are pure SGR and interpret to exactly the effect set");
    let mut out2: Buf<60> = Buf::new();
    let r2 = Style::new().effects(e).write_to(&mut out2);
    assert!(r2.is_ok() && out2.same(&out), "io::Write path writes the same bytes for effects");
    vk::vk_cover!(bits == 4095, "all effects");
}

/// full style, Display path == io::Write path byte for byte, and the whole output round-trips
#[cfg_attr(kani, kani::proof, kani::unwind(120))]
#[cfg_attr(not(kani), test)]
fn render_style_roundtrip() {
    let s = any_style();
    let mut d: Buf<116> = Buf::new();
    let r = core::fmt::write(&mut d, format_args!("{}", s));
    assert!(r.is_ok() && !d.overflow, "style renders into at most 112 bytes");
    let mut w: Buf<116> = Buf::new();
    let r2 = s.write_to(&mut w);
    assert!(r2.is_ok() && w.same(&d), "Display path and io::Write path produce the same bytes");
    let got = sgr_bytes(M_DEFAULT, &d.b, d.len, true);
    assert!(got == Pure::Ok(model_of(s)), "rendered style is pure SGR and interprets to exactly the style");
    let mut d2: Buf<116> = Buf::new();
    let _ = core::fmt::write(&mut d2, format_args!("{}", s.render()));
    assert!(d2.same(&d), "Style::render() displays like the style");
}

/// reset form: empty iff plain, otherwise returns the terminal to default
#[cfg_attr(kani, kani::proof, kani::unwind(13))]
#[cfg_attr(not(kani), test)]
fn render_reset_forms() {
    let s = any_style();
    let plain = s == Style::new();
    let mut a: Buf<8> = Buf::new();
    let r = core::fmt::write(&mut a, format_args!("{:#}", s));
    assert!(r.is_ok(), "alternate Display does not fail");
    let mut b: Buf<8> = Buf::new();
    let _ = core::fmt::write(&mut b, format_args!("{}", s.render_reset()));
    let mut c: Buf<8> = Buf::new();
    let rc = s.write_reset_to(&mut c);
    assert!(rc.is_ok(), "write_reset_to does not fail on a good writer");
    assert!(a.same(&b) && a.same(&c), "the three reset paths produce the same bytes");
    if plain {
        assert!(a.len == 0, "reset of a plain style is empty");
    } else {
        assert!(a.len > 0, "reset of a non-plain style is not empty");
        let any_state = MStyle { fg: MColor::Idx(vk::any_u8()), bg: MColor::Ansi(3), ul: MColor::Rgb(1, 2, 3), eff: vk::any_u16() & 4095 };
        assert!(sgr_bytes(any_state, &a.b, a.len, false) == Pure::Ok(M_DEFAULT), "reset is pure SGR and restores the default state");
    }
    let mut d: Buf<8> = Buf::new();
    let _ = core::fmt::write(&mut d, format_args!("{}", Reset.render()));
    assert!(sgr_bytes(M_DEFAULT, &d.b, d.len, false) == Pure::Ok(M_DEFAULT) && d.len > 0, "Reset renders a reset");
    let mut e: Buf<8> = Buf::new();
    let _ = core::fmt::write(&mut e, format_args!("{}", Reset));
    assert!(e.same(&d), "Reset and Reset.render() display the same");
    vk::vk_cover!(plain, "plain style");
    vk::vk_cover!(!plain, "non-plain style");
}

// ---- format flags: width / fill / alignment / precision never pad or truncate ----

macro_rules! flag_harness {
    ($name:ident, $fmt:literal, $base:literal) => {
        #[cfg_attr(kani, kani::proof, kani::unwind(120))]
        #[cfg_attr(not(kani), test)]
        fn $name() {
            let s = any_style();
            let mut a: Buf<116> = Buf::new();
            let mut b: Buf<116> = Buf::new();
            let ra = core::fmt::write(&mut a, format_args!($fmt, s));
            let rb = core::fmt::write(&mut b, format_args!($base, s));
            assert!(ra.is_ok() && rb.is_ok(), "formatting does not fail");
            assert!(a.same(&b), concat!("format flags `", $fmt, "` produce the same bytes as `", $base, "`"));
        }
    };
}

flag_harness!(render_flags_width_right, "{:>10}", "{}");
flag_harness!(render_flags_fill_center, "{:*^7}", "{}");
flag_harness!(render_flags_precision, "{:<3.1}", "{}");
flag_harness!(render_flags_zero, "{:08}", "{}");
flag_harness!(render_flags_alt_width, "{:#>8}", "{:#}");
flag_harness!(render_flags_alt_precision, "{:#.2}", "{:#}");
flag_harness!(render_flags_alt_fill, "{:-<#12}", "{:#}");
