//! child of `color` (appended `mod` line in the scratch copy): reaches the private DisplayBuffer.
#![allow(dead_code, unused_imports, missing_docs, unreachable_pub, clippy::all)]
use super::*;
use crate::verif_kani::spec_sgr::*;
use crate::verif_kani::util::{ansi_from_index, mcolor, mcolor_underline};
use crate::verif_kani::vk;

/// write_code appends the 1-3 ASCII digits of `code` (leading zeros allowed) and nothing else
#[cfg_attr(kani, kani::proof)]
#[cfg_attr(not(kani), test)]
fn render_write_code_all() {
    let code = vk::any_u8();
    let len = vk::any_usize();
    vk::assume(len <= DISPLAY_BUFFER_CAPACITY - 3);
    let mut buf = DisplayBuffer::default();
    let mut i = 0;
    while i < DISPLAY_BUFFER_CAPACITY {
        buf.buffer[i] = vk::any_u8();
        i += 1;
    }
    buf.len = len;
    let before = buf;
    let after = before.write_code(code);
    let n = after.len - before.len;
    assert!(after.len > before.len && n <= 3, "write_code appends one to three bytes");
    let mut value: u32 = 0;
    let mut k = 0;
    while k < 3 {
        if k < n {
            let d = after.buffer[before.len + k];
            assert!(b'0' <= d && d <= b'9', "write_code appends ASCII digits only");
            value = value * 10 + (d - b'0') as u32;
        }
        k += 1;
    }
    assert!(value == code as u32, "write_code digits denote the code");
    let mut j = 0;
    while j < DISPLAY_BUFFER_CAPACITY {
        if j < before.len {
            assert!(after.buffer[j] == before.buffer[j], "write_code leaves earlier bytes unchanged");
        }
        j += 1;
    }
    vk::vk_cover!(code >= 100 && len == DISPLAY_BUFFER_CAPACITY - 3, "three digits at the capacity edge");
}

fn check_buffer(buf: DisplayBuffer, want: MStyle) {
    assert!(buf.len <= DISPLAY_BUFFER_CAPACITY, "colour code fits the 19-byte display buffer");
    let mut i = 0;
    while i < DISPLAY_BUFFER_CAPACITY {
        if i < buf.len {
            assert!(buf.buffer[i] < 0x80, "display buffer holds ASCII only (as_str is valid UTF-8)");
        }
        i += 1;
    }
    let got = sgr_bytes(M_DEFAULT, &buf.buffer, buf.len, false);
    assert!(got == Pure::Ok(want), "the colour code is pure SGR and interprets to exactly that colour in that slot");
    assert!(buf.as_str().len() == buf.len, "as_str covers exactly the written bytes");
}

fn slot_style(slot: u8, c: MColor) -> MStyle {
    let mut m = M_DEFAULT;
    if slot == 0 { m.fg = c; } else if slot == 1 { m.bg = c; } else { m.ul = c; }
    m
}

/// 16-colour values in all three slots (all 48 cases)
#[cfg_attr(kani, kani::proof, kani::unwind(21))]
#[cfg_attr(not(kani), test)]
fn render_buffer_ansi16() {
    let i = vk::any_u8_in(0, 15);
    let c = ansi_from_index(i);
    let slot = vk::any_u8_in(0, 2);
    let buf = if slot == 0 { c.as_fg_buffer() } else if slot == 1 { c.as_bg_buffer() } else { c.as_underline_buffer() };
    // an underline colour of the 16-colour palette comes back as the same 256-colour index
    let want = slot_style(slot, if slot == 2 { MColor::Idx(i) } else { MColor::Ansi(i) });
    check_buffer(buf, want);
}

/// 256-colour indices in all three slots (all 768 cases)
#[cfg_attr(kani, kani::proof, kani::unwind(21))]
#[cfg_attr(not(kani), test)]
fn render_buffer_ansi256() {
    let i = vk::any_u8();
    let c = Ansi256Color(i);
    let slot = vk::any_u8_in(0, 2);
    let buf = if slot == 0 { c.as_fg_buffer() } else if slot == 1 { c.as_bg_buffer() } else { c.as_underline_buffer() };
    check_buffer(buf, slot_style(slot, MColor::Idx(i)));
}

/// RGB colours (all 2^24) per slot
fn buffer_rgb(slot: u8) {
    let c = RgbColor(vk::any_u8(), vk::any_u8(), vk::any_u8());
    let buf = if slot == 0 { c.as_fg_buffer() } else if slot == 1 { c.as_bg_buffer() } else { c.as_underline_buffer() };
    check_buffer(buf, slot_style(slot, MColor::Rgb(c.0, c.1, c.2)));
    vk::vk_cover!(buf.len == DISPLAY_BUFFER_CAPACITY, "longest code reaches the capacity");
}

#[cfg_attr(kani, kani::proof, kani::unwind(21))]
#[cfg_attr(not(kani), test)]
fn render_buffer_rgb_fg() {
    buffer_rgb(0);
}

#[cfg_attr(kani, kani::proof, kani::unwind(21))]
#[cfg_attr(not(kani), test)]
fn render_buffer_rgb_bg() {
    buffer_rgb(1);
}

#[cfg_attr(kani, kani::proof, kani::unwind(21))]
#[cfg_attr(not(kani), test)]
fn render_buffer_rgb_underline() {
    buffer_rgb(2);
}

/// records the one slice handed to write_all, copied at fixed positions (no symbolic-index writes)
struct OneShot {
    b: [u8; DISPLAY_BUFFER_CAPACITY],
    len: usize,
    calls: usize,
}

impl std::io::Write for OneShot {
    fn write(&mut self, buf: &[u8]) -> std::io::Result<usize> {
        Ok(buf.len())
    }
    fn write_all(&mut self, buf: &[u8]) -> std::io::Result<()> {
        self.calls += 1;
        self.len = buf.len();
        let mut i = 0;
        while i < DISPLAY_BUFFER_CAPACITY {
            if i < buf.len() {
                self.b[i] = buf[i];
            }
            i += 1;
        }
        Ok(())
    }
    fn flush(&mut self) -> std::io::Result<()> {
        Ok(())
    }
}

/// Color's write entry points select the buffer of the matching kind and slot and write exactly
/// its bytes, once (symbolic colour and slot; the io::Write path uses no formatting machinery)
#[cfg_attr(kani, kani::proof, kani::unwind(21))]
#[cfg_attr(not(kani), test)]
fn render_color_write_paths() {
    let c = crate::verif_kani::util::any_color();
    let slot = vk::any_u8_in(0, 2);
    let want = match (c, slot) {
        (Color::Ansi(x), 0) => x.as_fg_buffer(),
        (Color::Ansi(x), 1) => x.as_bg_buffer(),
        (Color::Ansi(x), _) => x.as_underline_buffer(),
        (Color::Ansi256(x), 0) => x.as_fg_buffer(),
        (Color::Ansi256(x), 1) => x.as_bg_buffer(),
        (Color::Ansi256(x), _) => x.as_underline_buffer(),
        (Color::Rgb(x), 0) => x.as_fg_buffer(),
        (Color::Rgb(x), 1) => x.as_bg_buffer(),
        (Color::Rgb(x), _) => x.as_underline_buffer(),
    };
    let mut out = OneShot { b: [0; DISPLAY_BUFFER_CAPACITY], len: 0, calls: 0 };
    let r = if slot == 0 { c.write_fg_to(&mut out) } else if slot == 1 { c.write_bg_to(&mut out) } else { c.write_underline_to(&mut out) };
    assert!(r.is_ok() && out.calls == 1 && out.len == want.len, "the io::Write path writes the colour buffer, once");
    let mut i = 0;
    while i < DISPLAY_BUFFER_CAPACITY {
        if i < want.len {
            assert!(out.b[i] == want.buffer[i], "the io::Write path writes exactly the bytes of the colour buffer");
        }
        i += 1;
    }
}
