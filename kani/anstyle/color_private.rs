//! child of `color` (appended `mod` line in the scratch copy): reaches the private DisplayBuffer.
#![allow(dead_code, unused_imports, missing_docs, unreachable_pub, clippy::all)]
use super::*;
use crate::verif_kani::vk;

/// write_code appends the 1-3 ASCII digits of `code` (leading zeros allowed) and nothing else
#[cfg_attr(kani, kani::proof)]
#[cfg_attr(not(kani), test)]
fn render_write_code_all() {
    let code = vk::any_u8();
    let len = vk::any_usize();
    vk::assume(len <= DISPLAY_BUFFER_CAPACITY - 3);
    let mut buf = DisplayBuffer::default();
    let mut i = 0;
    while i < DISPLAY_BUFFER_CAPACITY {
        buf.buffer[i] = vk::any_u8();
        i += 1;
    }
    buf.len = len;
    let before = buf;
    let after = before.write_code(code);
    let n = after.len - before.len;
    assert!(after.len > before.len && n <= 3, "write_code appends one to three bytes");
    let mut value: u32 = 0;
    let mut k = 0;
    while k < 3 {
        if k < n {
            let d = after.buffer[before.len + k];
            assert!(b'0' <= d && d <= b'9', "write_code appends ASCII digits only");
            value = value * 10 + (d - b'0') as u32;
        }
        k += 1;
    }
    assert!(value == code as u32, "write_code digits denote the code");
    let mut j = 0;
    while j < DISPLAY_BUFFER_CAPACITY {
        if j < before.len {
            assert!(after.buffer[j] == before.buffer[j], "write_code leaves earlier bytes unchanged");
        }
        j += 1;
    }
    vk::vk_cover!(code >= 100 && len == DISPLAY_BUFFER_CAPACITY - 3, "three digits at the capacity edge");
}

/// every colour buffer fits the 19 bytes, is ASCII, and as_str() is exactly its content
#[cfg_attr(kani, kani::proof)]
#[cfg_attr(not(kani), test)]
fn render_buffer_capacity() {
    let c = crate::verif_kani::util::any_color();
    let slot = vk::any_u8_in(0, 2);
    let buf = match (c, slot) {
        (Color::Ansi(c), 0) => c.as_fg_buffer(),
        (Color::Ansi(c), 1) => c.as_bg_buffer(),
        (Color::Ansi(c), _) => c.as_underline_buffer(),
        (Color::Ansi256(c), 0) => c.as_fg_buffer(),
        (Color::Ansi256(c), 1) => c.as_bg_buffer(),
        (Color::Ansi256(c), _) => c.as_underline_buffer(),
        (Color::Rgb(c), 0) => c.as_fg_buffer(),
        (Color::Rgb(c), 1) => c.as_bg_buffer(),
        (Color::Rgb(c), _) => c.as_underline_buffer(),
    };
    assert!(buf.len <= DISPLAY_BUFFER_CAPACITY, "colour code fits the display buffer");
    let mut i = 0;
    while i < DISPLAY_BUFFER_CAPACITY {
        if i < buf.len {
            assert!(buf.buffer[i] < 0x80, "display buffer holds ASCII only (as_str is valid UTF-8)");
        }
        i += 1;
    }
    assert!(buf.as_str().len() == buf.len, "as_str covers exactly the written bytes");
    vk::vk_cover!(buf.len == DISPLAY_BUFFER_CAPACITY, "longest code reaches the capacity");
}
