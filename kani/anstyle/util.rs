//! Shared harness helpers: symbolic values built through the public API only,
//! the abstraction function to the S4 model, fixed-size sinks.
#![allow(dead_code, unused_imports, missing_docs, unreachable_pub, clippy::all)]
use super::spec_sgr::*;
use super::vk;
use crate::{Ansi256Color, AnsiColor, Color, Effects, RgbColor, Style};

/// the twelve effects in declaration order (effect.rs)
pub(crate) const ALL: [Effects; 12] = [
    Effects::BOLD, Effects::DIMMED, Effects::ITALIC, Effects::UNDERLINE, Effects::DOUBLE_UNDERLINE,
    Effects::CURLY_UNDERLINE, Effects::DOTTED_UNDERLINE, Effects::DASHED_UNDERLINE, Effects::BLINK,
    Effects::INVERT, Effects::HIDDEN, Effects::STRIKETHROUGH,
];

pub(crate) const NAMES: [&str; 12] = [
    "BOLD", "DIMMED", "ITALIC", "UNDERLINE", "DOUBLE_UNDERLINE", "CURLY_UNDERLINE", "DOTTED_UNDERLINE",
    "DASHED_UNDERLINE", "BLINK", "INVERT", "HIDDEN", "STRIKETHROUGH",
];

pub(crate) fn ansi_from_index(i: u8) -> AnsiColor {
    match i {
        0 => AnsiColor::Black, 1 => AnsiColor::Red, 2 => AnsiColor::Green, 3 => AnsiColor::Yellow,
        4 => AnsiColor::Blue, 5 => AnsiColor::Magenta, 6 => AnsiColor::Cyan, 7 => AnsiColor::White,
        8 => AnsiColor::BrightBlack, 9 => AnsiColor::BrightRed, 10 => AnsiColor::BrightGreen,
        11 => AnsiColor::BrightYellow, 12 => AnsiColor::BrightBlue, 13 => AnsiColor::BrightMagenta,
        14 => AnsiColor::BrightCyan, _ => AnsiColor::BrightWhite,
    }
}

pub(crate) fn ansi_index(c: AnsiColor) -> u8 {
    match c {
        AnsiColor::Black => 0, AnsiColor::Red => 1, AnsiColor::Green => 2, AnsiColor::Yellow => 3,
        AnsiColor::Blue => 4, AnsiColor::Magenta => 5, AnsiColor::Cyan => 6, AnsiColor::White => 7,
        AnsiColor::BrightBlack => 8, AnsiColor::BrightRed => 9, AnsiColor::BrightGreen => 10,
        AnsiColor::BrightYellow => 11, AnsiColor::BrightBlue => 12, AnsiColor::BrightMagenta => 13,
        AnsiColor::BrightCyan => 14, AnsiColor::BrightWhite => 15,
    }
}

pub(crate) fn any_ansi() -> AnsiColor {
    ansi_from_index(vk::any_u8_in(0, 15))
}

pub(crate) fn any_color() -> Color {
    let tag = vk::any_u8_in(0, 2);
    if tag == 0 {
        Color::Ansi(any_ansi())
    } else if tag == 1 {
        Color::Ansi256(Ansi256Color(vk::any_u8()))
    } else {
        Color::Rgb(RgbColor(vk::any_u8(), vk::any_u8(), vk::any_u8()))
    }
}

pub(crate) fn any_opt_color() -> Option<Color> {
    if vk::any_bool() {
        Some(any_color())
    } else {
        None
    }
}

/// an arbitrary effect set (all 4096) together with its membership vector
pub(crate) fn any_effects() -> (Effects, u16) {
    let bits = vk::any_u16();
    vk::assume(bits < 4096);
    let mut e = Effects::new();
    let mut i = 0;
    while i < 12 {
        if bits & (1 << i) != 0 {
            e = e.insert(ALL[i]);
        }
        i += 1;
    }
    (e, bits)
}

/// membership vector through the public `contains`
pub(crate) fn bits_of(e: Effects) -> u16 {
    let mut bits = 0u16;
    let mut i = 0;
    while i < 12 {
        if e.contains(ALL[i]) {
            bits |= 1 << i;
        }
        i += 1;
    }
    bits
}

pub(crate) fn any_style() -> Style {
    let (e, _) = any_effects();
    Style::new().fg_color(any_opt_color()).bg_color(any_opt_color()).underline_color(any_opt_color()).effects(e)
}

pub(crate) fn mcolor(c: Option<Color>) -> MColor {
    match c {
        None => MColor::Default,
        Some(Color::Ansi(a)) => MColor::Ansi(ansi_index(a)),
        Some(Color::Ansi256(i)) => MColor::Idx(i.0),
        Some(Color::Rgb(c)) => MColor::Rgb(c.0, c.1, c.2),
    }
}

/// underline colours have no 16-colour code: a palette colour comes back as the same 256-colour index
pub(crate) fn mcolor_underline(c: Option<Color>) -> MColor {
    match c {
        Some(Color::Ansi(a)) => MColor::Idx(ansi_index(a)),
        other => mcolor(other),
    }
}

pub(crate) fn model_of(s: Style) -> MStyle {
    MStyle {
        fg: mcolor(s.get_fg_color()),
        bg: mcolor(s.get_bg_color()),
        ul: mcolor_underline(s.get_underline_color()),
        eff: bits_of(s.get_effects()),
    }
}

/// fixed-size sink for both `core::fmt::Write` and `std::io::Write`
pub(crate) struct Buf<const N: usize> {
    pub(crate) b: [u8; N],
    pub(crate) len: usize,
    pub(crate) overflow: bool,
    pub(crate) calls: usize,
}

impl<const N: usize> Buf<N> {
    pub(crate) fn new() -> Self {
        Buf { b: [0; N], len: 0, overflow: false, calls: 0 }
    }
    fn put(&mut self, s: &[u8]) {
        self.calls += 1;
        let mut i = 0;
        while i < s.len() {
            if self.len < N {
                self.b[self.len] = s[i];
                self.len += 1;
            } else {
                self.overflow = true;
            }
            i += 1;
        }
    }
    pub(crate) fn same(&self, other: &Self) -> bool {
        if self.len != other.len || self.overflow || other.overflow {
            return false;
        }
        let mut i = 0;
        while i < self.len {
            if self.b[i] != other.b[i] {
                return false;
            }
            i += 1;
        }
        true
    }
    pub(crate) fn is(&self, lit: &[u8]) -> bool {
        if self.len != lit.len() || self.overflow {
            return false;
        }
        let mut i = 0;
        while i < lit.len() {
            if self.b[i] != lit[i] {
                return false;
            }
            i += 1;
        }
        true
    }
}

impl<const N: usize> core::fmt::Write for Buf<N> {
    fn write_str(&mut self, s: &str) -> core::fmt::Result {
        self.put(s.as_bytes());
        Ok(())
    }
}

impl<const N: usize> std::io::Write for Buf<N> {
    fn write(&mut self, s: &[u8]) -> std::io::Result<usize> {
        self.put(s);
        Ok(s.len())
    }
    fn flush(&mut self) -> std::io::Result<()> {
        Ok(())
    }
}
