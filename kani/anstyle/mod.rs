//! Kani harnesses on the unmodified `anstyle` crate: C13 (algebra) and C05 (rendering).
#![allow(dead_code, unused_imports, missing_docs, unreachable_pub, clippy::all)]
pub(crate) mod vk;
pub(crate) mod spec_sgr;
pub(crate) mod util;
mod algebra;
mod render;
