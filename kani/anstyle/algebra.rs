//! C13 — Effects / Style / colour-table algebra, through the public API only,
//! over the full value domains (loops are bounded by the 12-entry effect table:
//! complete, not a bounded stand-in).
#![allow(dead_code, unused_imports, missing_docs, unreachable_pub, clippy::all)]
use super::util::*;
use super::vk;
use crate::{Ansi256Color, AnsiColor, Color, Effects, RgbColor, Style};

/// construction faithful: contains / is_plain / == agree with the membership vector
#[cfg_attr(kani, kani::proof, kani::unwind(13))]
#[cfg_attr(not(kani), test)]
fn alg_effects_membership() {
    let (a, abits) = any_effects();
    let (b, bbits) = any_effects();
    assert!(bits_of(a) == abits, "Effects: contains(E_i) iff E_i was inserted");
    assert!(a.is_plain() == (abits == 0), "Effects::is_plain iff no member");
    assert!((a == b) == (abits == bbits), "Effects == iff same members");
    assert!(Effects::new().is_plain() && bits_of(Effects::new()) == 0, "Effects::new() is empty");
    assert!(bits_of(a.clear()) == 0 && a.clear().is_plain(), "Effects::clear() is empty");
    assert!(a.contains(b) == (bbits & abits == bbits), "Effects::contains(other) iff other is a subset");
    assert!(bits_of(Effects::default()) == 0, "Effects::default() is empty");
    vk::vk_cover!(abits == 4095, "full set reachable");
    vk::vk_cover!(abits != bbits && abits & bbits != 0, "overlapping distinct sets");
}

/// insert / remove / set / | / - / |= / -= are union and difference
#[cfg_attr(kani, kani::proof, kani::unwind(13))]
#[cfg_attr(not(kani), test)]
fn alg_effects_set_laws() {
    let (a, abits) = any_effects();
    let (b, bbits) = any_effects();
    assert!(bits_of(a.insert(b)) == abits | bbits, "Effects::insert is union");
    assert!(bits_of(a.remove(b)) == abits & !bbits, "Effects::remove is difference");
    assert!(bits_of(a.set(b, true)) == abits | bbits, "Effects::set(_, true) is insert");
    assert!(bits_of(a.set(b, false)) == abits & !bbits, "Effects::set(_, false) is remove");
    assert!(bits_of(a | b) == abits | bbits, "Effects | is union");
    assert!(bits_of(a - b) == abits & !bbits, "Effects - is difference");
    let mut c = a;
    c |= b;
    assert!(bits_of(c) == abits | bbits, "Effects |= is union");
    let mut d = a;
    d -= b;
    assert!(bits_of(d) == abits & !bbits, "Effects -= is difference");
    vk::vk_cover!(abits & bbits != 0 && abits & !bbits != 0, "partial overlap");
}

/// iteration yields exactly the members, in declaration order
#[cfg_attr(kani, kani::proof, kani::unwind(14))]
#[cfg_attr(not(kani), test)]
fn alg_effects_iter() {
    let (a, abits) = any_effects();
    let mut it = a.iter();
    let mut idx_it = a.index_iter();
    let mut i = 0;
    while i < 12 {
        if abits & (1 << i) != 0 {
            let got = it.next();
            assert!(got == Some(ALL[i]), "Effects::iter yields the members in declaration order");
            let gi = idx_it.next();
            assert!(gi == Some(i), "Effects::index_iter yields the member indices in order");
        }
        i += 1;
    }
    assert!(it.next().is_none(), "Effects::iter yields nothing but the members");
    assert!(it.next().is_none(), "Effects::iter stays exhausted");
    assert!(idx_it.next().is_none(), "Effects::index_iter yields nothing but the members");
    vk::vk_cover!(abits == 0b1000_0000_0001, "first and last");
}

/// Debug names exactly the members: "Effects(A | B | ...)"
/// Concrete enumeration (symbolic strings explode CBMC's formatting model: 22 GB):
/// five representative sets (empty, first, last, a pair, a triple) — BOUNDED in
/// set shape; member order for every set comes from alg_effects_iter (complete).
fn debug_case(members: &[usize]) {
    use core::fmt::Write as _;
    let mut e = Effects::new();
    let mut expect: Buf<48> = Buf::new();
    let _ = expect.write_str("Effects(");
    let mut k = 0;
    while k < members.len() {
        e = e.insert(ALL[members[k]]);
        if k != 0 {
            let _ = expect.write_str(" | ");
        }
        let _ = expect.write_str(NAMES[members[k]]);
        k += 1;
    }
    let _ = expect.write_str(")");
    let mut out: Buf<48> = Buf::new();
    let r = core::fmt::write(&mut out, format_args!("{:?}", e));
    assert!(r.is_ok(), "Debug for Effects does not fail");
    assert!(out.same(&expect), "Debug for Effects names exactly the members");
}

#[cfg_attr(kani, kani::proof, kani::unwind(50))]
#[cfg_attr(not(kani), test)]
fn alg_effects_dbg_samples() {
    debug_case(&[]);
    debug_case(&[0]);
    debug_case(&[11]);
    debug_case(&[3, 8]);
    debug_case(&[1, 2, 10]);
}

/// every member's name alone (first half / second half of the table)
#[cfg_attr(kani, kani::proof, kani::unwind(50))]
#[cfg_attr(not(kani), test)]
fn alg_effects_dbg_singles_lo() {
    debug_case(&[1]);
    debug_case(&[2]);
    debug_case(&[3]);
    debug_case(&[4]);
    debug_case(&[5]);
}

#[cfg_attr(kani, kani::proof, kani::unwind(50))]
#[cfg_attr(not(kani), test)]
fn alg_effects_dbg_singles_hi() {
    debug_case(&[6]);
    debug_case(&[7]);
    debug_case(&[8]);
    debug_case(&[9]);
    debug_case(&[10]);
}

/// Streaming matcher: a `fmt::Write` sink that compares the bytes it receives, as they arrive and
/// however the formatter splits them into `write_str` calls, with the text the statement fixes for
/// the set: "Effects(" + member names in declaration order joined by " | " + ")".  Nothing is stored
/// (storing at a symbolic position is what CBMC does not finish).
struct DebugMatcher {
    /// next[i]: smallest member index > i, or 12; first: smallest member index, or 12
    next: [usize; 12],
    first: usize,
    /// token being matched: 0 head, 1 name of member `nb`, 2 separator, 3 tail, 4 complete
    tok: u8,
    nb: usize,
    off: usize,
    ok: bool,
}

const NAME_LEN: [usize; 12] = [4, 6, 6, 9, 16, 15, 16, 16, 5, 6, 6, 13];
const NAME_BYTES: [[u8; 16]; 12] = [
    *b"BOLD............", *b"DIMMED..........", *b"ITALIC..........", *b"UNDERLINE.......", *b"DOUBLE_UNDERLINE",
    *b"CURLY_UNDERLINE.", *b"DOTTED_UNDERLINE", *b"DASHED_UNDERLINE", *b"BLINK...........", *b"INVERT..........",
    *b"HIDDEN..........", *b"STRIKETHROUGH...",
];
const HEAD: [u8; 8] = *b"Effects(";
const SEP: [u8; 3] = *b" | ";

impl DebugMatcher {
    fn new(bits: u16) -> Self {
        let mut next = [12usize; 12];
        let mut first = 12usize;
        // from the last index down: `seen` is the smallest member index above i
        let mut seen = 12usize;
        let mut k = 0;
        while k < 12 {
            let i = 11 - k;
            next[i] = seen;
            if bits & (1 << i) != 0 {
                seen = i;
            }
            k += 1;
        }
        first = seen;
        DebugMatcher { next, first, tok: 0, nb: 0, off: 0, ok: true }
    }

    fn feed(&mut self, b: u8) {
        let (want, len) = if self.tok == 0 {
            (HEAD[self.off & 7], 8)
        } else if self.tok == 1 {
            (NAME_BYTES[self.nb][self.off & 15], NAME_LEN[self.nb])
        } else if self.tok == 2 {
            (SEP[if self.off < 3 { self.off } else { 0 }], 3)
        } else if self.tok == 3 {
            (b')', 1)
        } else {
            self.ok = false;
            return;
        };
        if b != want {
            self.ok = false;
        }
        self.off += 1;
        if self.off == len {
            self.off = 0;
            if self.tok == 0 {
                if self.first < 12 { self.tok = 1; self.nb = self.first; } else { self.tok = 3; }
            } else if self.tok == 1 {
                if self.next[self.nb] < 12 { self.tok = 2; } else { self.tok = 3; }
            } else if self.tok == 2 {
                self.tok = 1;
                self.nb = self.next[self.nb];
            } else {
                self.tok = 4;
            }
        }
    }
}

impl core::fmt::Write for DebugMatcher {
    fn write_str(&mut self, s: &str) -> core::fmt::Result {
        let bytes = s.as_bytes();
        // no piece the formatter hands over is longer than the longest token (16)
        if bytes.len() > 16 {
            self.ok = false;
            return Ok(());
        }
        let mut j = 0;
        while j < 16 {
            if j < bytes.len() {
                self.feed(bytes[j]);
            }
            j += 1;
        }
        Ok(())
    }
}

/// the matcher's byte table is the table of names (concrete)
#[cfg_attr(kani, kani::proof, kani::unwind(18))]
#[cfg_attr(not(kani), test)]
fn alg_names_table() {
    let mut i = 0;
    while i < 12 {
        let n = NAMES[i].as_bytes();
        assert!(n.len() == NAME_LEN[i], "matcher table: name lengths");
        let mut j = 0;
        while j < 16 {
            if j < n.len() {
                assert!(n[j] == NAME_BYTES[i][j], "matcher table: name bytes");
            }
            j += 1;
        }
        i += 1;
    }
}

/// Debug for every one of the 4096 sets (Formatter constructed directly, see render.rs): the text is
/// "Effects(" + member names joined by " | " + ")".  NOT REGISTERED: CBMC does not finish (15 min,
/// > 6 GB) because `Debug for Effects` uses `write!`, i.e. `fmt::Arguments` function pointers, whose
/// candidate targets include every formatting function of the crate.  Kept for a stronger back end.
#[cfg_attr(kani, kani::proof, kani::unwind(18))]
#[cfg_attr(not(kani), test)]
fn alg_effects_debug_all() {
    let (e, bits) = any_effects();
    let mut out = DebugMatcher::new(bits);
    let r = {
        let mut f = core::fmt::Formatter::new(&mut out, core::fmt::FormattingOptions::new());
        core::fmt::Debug::fmt(&e, &mut f)
    };
    assert!(r.is_ok(), "Debug for Effects does not fail");
    assert!(out.ok, "Debug for Effects is `Effects(` + the member names in declaration order joined by ` | ` + `)`");
    assert!(out.tok == 4, "Debug for Effects is complete: it ends with `)` after the last member");
    vk::vk_cover!(bits == 4095, "all members");
    vk::vk_cover!(bits == 0, "no member");
}

/// builders change only their own field; getters return what was set
#[cfg_attr(kani, kani::proof, kani::unwind(13))]
#[cfg_attr(not(kani), test)]
fn alg_style_builders() {
    let s = any_style();
    let c = any_opt_color();
    let (e, ebits) = any_effects();
    let (fg, bg, ul, ef) = (s.get_fg_color(), s.get_bg_color(), s.get_underline_color(), s.get_effects());

    let t = s.fg_color(c);
    assert!(t.get_fg_color() == c && t.get_bg_color() == bg && t.get_underline_color() == ul && t.get_effects() == ef,
        "Style::fg_color sets fg and nothing else");
    let t = s.bg_color(c);
    assert!(t.get_bg_color() == c && t.get_fg_color() == fg && t.get_underline_color() == ul && t.get_effects() == ef,
        "Style::bg_color sets bg and nothing else");
    let t = s.underline_color(c);
    assert!(t.get_underline_color() == c && t.get_fg_color() == fg && t.get_bg_color() == bg && t.get_effects() == ef,
        "Style::underline_color sets the underline colour and nothing else");
    let t = s.effects(e);
    assert!(t.get_effects() == e && t.get_fg_color() == fg && t.get_bg_color() == bg && t.get_underline_color() == ul,
        "Style::effects sets the effects and nothing else");

    let n = Style::new();
    assert!(n.get_fg_color().is_none() && n.get_bg_color().is_none() && n.get_underline_color().is_none() && n.get_effects().is_plain(),
        "Style::new() is plain");
    assert!(n.is_plain() && Style::default() == n, "Style::new() is_plain and equals default");
    assert!(s.is_plain() == (fg.is_none() && bg.is_none() && ul.is_none() && ef.is_plain()), "Style::is_plain iff nothing set");

    // | and - with effects, assignments
    let sb = bits_of(ef);
    let t = s | e;
    assert!(bits_of(t.get_effects()) == sb | ebits && t.get_fg_color() == fg && t.get_bg_color() == bg && t.get_underline_color() == ul,
        "Style | Effects is union on effects only");
    let t = s - e;
    assert!(bits_of(t.get_effects()) == sb & !ebits && t.get_fg_color() == fg && t.get_bg_color() == bg && t.get_underline_color() == ul,
        "Style - Effects is difference on effects only");
    let mut t = s;
    t |= e;
    assert!(t == (s | e), "Style |= Effects equals |");
    let mut t = s;
    t -= e;
    assert!(t == (s - e), "Style -= Effects equals -");

    // equality with an effects value
    assert!((s == e) == (ef == e && fg.is_none() && bg.is_none() && ul.is_none()),
        "Style == Effects iff same effects and no colours");
    let f: Style = e.into();
    assert!(f.get_effects() == e && f.get_fg_color().is_none() && f.get_bg_color().is_none() && f.get_underline_color().is_none(),
        "From<Effects> for Style");
    vk::vk_cover!(fg.is_some() && bg.is_none(), "mixed colours");
}

/// convenience methods equal inserting the named effect
#[cfg_attr(kani, kani::proof, kani::unwind(13))]
#[cfg_attr(not(kani), test)]
fn alg_style_convenience() {
    let s = any_style();
    let ef = s.get_effects();
    let same_colors = |t: Style| {
        t.get_fg_color() == s.get_fg_color() && t.get_bg_color() == s.get_bg_color() && t.get_underline_color() == s.get_underline_color()
    };
    assert!(s.bold().get_effects() == ef.insert(Effects::BOLD) && same_colors(s.bold()), "Style::bold == insert(BOLD)");
    assert!(s.dimmed().get_effects() == ef.insert(Effects::DIMMED) && same_colors(s.dimmed()), "Style::dimmed == insert(DIMMED)");
    assert!(s.italic().get_effects() == ef.insert(Effects::ITALIC) && same_colors(s.italic()), "Style::italic == insert(ITALIC)");
    assert!(s.underline().get_effects() == ef.insert(Effects::UNDERLINE) && same_colors(s.underline()), "Style::underline == insert(UNDERLINE)");
    assert!(s.blink().get_effects() == ef.insert(Effects::BLINK) && same_colors(s.blink()), "Style::blink == insert(BLINK)");
    assert!(s.invert().get_effects() == ef.insert(Effects::INVERT) && same_colors(s.invert()), "Style::invert == insert(INVERT)");
    assert!(s.hidden().get_effects() == ef.insert(Effects::HIDDEN) && same_colors(s.hidden()), "Style::hidden == insert(HIDDEN)");
    assert!(s.strikethrough().get_effects() == ef.insert(Effects::STRIKETHROUGH) && same_colors(s.strikethrough()), "Style::strikethrough == insert(STRIKETHROUGH)");
    // colour helpers
    let c = any_color();
    let d = any_color();
    assert!(c.on_default() == Style::new().fg_color(Some(c)), "Color::on_default sets fg only");
    assert!(c.on(d) == Style::new().fg_color(Some(c)).bg_color(Some(d)), "Color::on sets fg and bg");
}

/// 16-colour values <-> indices 0-15; bright/normal toggling
#[cfg_attr(kani, kani::proof)]
#[cfg_attr(not(kani), test)]
fn alg_color_tables() {
    let i = vk::any_u8();
    let r = Ansi256Color(i).into_ansi();
    if i < 16 {
        assert!(r == Some(ansi_from_index(i)), "Ansi256Color::into_ansi maps 0-15 to the palette in order");
        assert!(Ansi256Color::from_ansi(r.unwrap()).0 == i, "from_ansi . into_ansi is the identity on 0-15");
    } else {
        assert!(r.is_none(), "Ansi256Color::into_ansi is None on 16-255");
    }
    assert!(Ansi256Color(i).index() == i && Ansi256Color::from(i) == Ansi256Color(i), "Ansi256Color::index / From<u8>");
    let c = any_ansi();
    let k = ansi_index(c);
    assert!(Ansi256Color::from_ansi(c).0 == k, "Ansi256Color::from_ansi is the palette index");
    assert!(Ansi256Color::from_ansi(c).into_ansi() == Some(c), "into_ansi . from_ansi is the identity");
    assert!(Ansi256Color::from(c) == Ansi256Color(k), "From<AnsiColor> for Ansi256Color");
    assert!(c.is_bright() == (k >= 8), "AnsiColor::is_bright iff index >= 8");
    let b = c.bright(true);
    let n = c.bright(false);
    assert!(b.is_bright() && !n.is_bright(), "bright(true) is bright, bright(false) is not");
    assert!(ansi_index(b) % 8 == k % 8 && ansi_index(n) % 8 == k % 8, "bright/normal toggling preserves hue");
    assert!(b.bright(true) == b && n.bright(false) == n, "bright(x) is idempotent");
    assert!(n.bright(true) == b && b.bright(false) == n, "toggling is a projection");
    assert!(c.bright(c.is_bright()) == c, "bright(is_bright()) is the identity");
    assert!(Color::from(c) == Color::Ansi(c) && Color::from(i) == Color::Ansi256(Ansi256Color(i)), "Color::from");
    let (r8, g8, b8) = (vk::any_u8(), vk::any_u8(), vk::any_u8());
    let rgb = RgbColor(r8, g8, b8);
    assert!(rgb.r() == r8 && rgb.g() == g8 && rgb.b() == b8 && RgbColor::from((r8, g8, b8)) == rgb, "RgbColor accessors");
    vk::vk_cover!(i >= 16, "high index");
    vk::vk_cover!(k >= 8, "bright colour");
}
