//! C16 — anstyle -> ansi_term.  ansi_term has no bright colours: brightness of the foreground is its bold flag.
#![allow(dead_code, unused_imports, missing_docs, unreachable_pub, clippy::all)]
pub(crate) mod vk;
pub(crate) mod astyle;
use astyle::*;
use ansi_term::Colour;

fn hue(i: u8) -> Colour {
    match i % 8 {
        0 => Colour::Black, 1 => Colour::Red, 2 => Colour::Green, 3 => Colour::Yellow,
        4 => Colour::Blue, 5 => Colour::Purple, 6 => Colour::Cyan, _ => Colour::White,
    }
}

fn want_color(c: AColor) -> Colour {
    if c.tag == 0 { hue(c.a) } else if c.tag == 1 { Colour::Fixed(c.a) } else { Colour::RGB(c.a, c.b, c.c) }
}

#[cfg_attr(kani, kani::proof, kani::unwind(13))]
#[cfg_attr(not(kani), test)]
fn adapt_ansi_term() {
    let s = any_astyle();
    let got = crate::to_ansi_term(style_of(&s));
    assert!(got.foreground == s.fg.map(want_color), "ansi_term: foreground keeps hue, index and RGB");
    assert!(got.background == s.bg.map(want_color), "ansi_term: background keeps hue, index and RGB");
    let fg_bright = s.fg.map(|c| c.tag == 0 && c.a >= 8).unwrap_or(false);
    assert!(got.is_bold == (s.eff & BOLD != 0 || fg_bright), "ansi_term: bold iff BOLD or bright foreground");
    assert!(got.is_dimmed == (s.eff & DIMMED != 0), "ansi_term: dimmed");
    assert!(got.is_italic == (s.eff & ITALIC != 0), "ansi_term: italic");
    assert!(got.is_underline == (s.eff & UNDERLINE != 0), "ansi_term: underline");
    assert!(got.is_blink == (s.eff & BLINK != 0), "ansi_term: blink");
    assert!(got.is_reverse == (s.eff & INVERT != 0), "ansi_term: reverse");
    assert!(got.is_hidden == (s.eff & HIDDEN != 0), "ansi_term: hidden");
    assert!(got.is_strikethrough == (s.eff & STRIKETHROUGH != 0), "ansi_term: strikethrough");
    vk::vk_cover!(s.fg.map(|c| c.tag == 0 && c.a == 12).unwrap_or(false), "bright blue fg");
}
