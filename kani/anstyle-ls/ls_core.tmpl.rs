//! C12 — the code-application loop of `anstyle_ls::parse`, cut verbatim out of the working tree
//! (rule E9: everything after the tokenising statement, as a function of its one live variable
//! `parts`).  The tokeniser itself (`split(';')`, `parse::<u8>()`, `collect::<Option<_>>()`) and
//! the early return for "", "0", "00" are std string code on which CBMC does not finish even for
//! concrete inputs (measured): they are NOT verified, see the evidence assumptions.
#![allow(dead_code, unused_imports, unused_mut, missing_docs, unreachable_pub, clippy::all)]
use super::amodel::*;
use super::spec_sgr::*;
use super::vk;

fn ls_core(mut parts: std::collections::VecDeque<u8>) -> Option<anstyle::Style> {
//@slice crates/anstyle-ls/src/lib.rs parse 1 .collect::<Option<_>>()?;
}

/// the statement's semantics: apply the codes in order to the default style
/// (None = a form the statement does not fix: 38/48/58 not followed by 5;n or 2;r;g;b)
fn ls_apply(codes: &[u8], n: usize) -> Option<MStyle> {
    let mut s = M_DEFAULT;
    let mut i = 0;
    // position inside an extended-colour group: 0 none, 1 after 38/48/58, 2 after 5, 3 after 2
    let mut g = 0u8;
    let mut target = 0u8;
    let mut rgb = [0u8; 3];
    let mut k = 0;
    while i < codes.len() {
        if i < n {
            let v = codes[i];
            if g == 1 {
                if v == 5 { g = 2; } else if v == 2 { g = 3; k = 0; } else { return None; }
            } else if g == 2 {
                let c = MColor::Idx(v);
                if target == 38 { s.fg = c; } else if target == 48 { s.bg = c; } else { s.ul = c; }
                g = 0;
            } else if g == 3 {
                rgb[k] = v;
                k += 1;
                if k == 3 {
                    let c = MColor::Rgb(rgb[0], rgb[1], rgb[2]);
                    if target == 38 { s.fg = c; } else if target == 48 { s.bg = c; } else { s.ul = c; }
                    g = 0;
                }
            } else if v == 0 { s = M_DEFAULT; }
            else if v == 1 { s.eff |= E_BOLD; }
            else if v == 2 { s.eff |= E_DIMMED; }
            else if v == 3 { s.eff |= E_ITALIC; }
            else if v == 4 { s.eff |= E_UNDERLINE; }
            else if v == 5 || v == 6 { s.eff |= E_BLINK; }
            else if v == 7 { s.eff |= E_INVERT; }
            else if v == 8 { s.eff |= E_HIDDEN; }
            else if v == 9 { s.eff |= E_STRIKETHROUGH; }
            else if v == 22 { s.eff &= !(E_BOLD | E_DIMMED); }
            else if v == 23 { s.eff &= !E_ITALIC; }
            else if v == 24 { s.eff &= !E_UNDERLINE; }
            else if v == 25 { s.eff &= !E_BLINK; }
            else if v == 27 { s.eff &= !E_INVERT; }
            else if v == 28 { s.eff &= !E_HIDDEN; }
            else if v == 29 { s.eff &= !E_STRIKETHROUGH; }
            else if 30 <= v && v <= 37 { s.fg = MColor::Ansi(v - 30); }
            else if v == 38 || v == 48 || v == 58 { g = 1; target = v; }
            else if v == 39 { s.fg = MColor::Default; }
            else if 40 <= v && v <= 47 { s.bg = MColor::Ansi(v - 40); }
            else if v == 49 { s.bg = MColor::Default; }
            else if v == 59 { s.ul = MColor::Default; }
            else if 90 <= v && v <= 97 { s.fg = MColor::Ansi(v - 90 + 8); }
            else if 100 <= v && v <= 107 { s.bg = MColor::Ansi(v - 100 + 8); }
            // unknown codes are ignored
        }
        i += 1;
    }
    if g != 0 { None } else { Some(s) }
}

/// lists of exactly N codes, every value of every code
fn run_codes<const N: usize>() {
    let mut codes = [0u8; N];
    let mut parts = std::collections::VecDeque::with_capacity(N);
    let mut i = 0;
    while i < N {
        let v = vk::any_u8();
        codes[i] = v;
        parts.push_back(v);
        i += 1;
    }
    let got = ls_core(parts);
    assert!(got.is_some(), "a list of numbers in 0..=255 yields a style");
    if let Some(want) = ls_apply(&codes, N) {
        assert!(model_of(got.unwrap()) == want, "the parsed style is the default style with the codes applied left to right");
    }
    vk::vk_cover!(ls_apply(&codes, N).map(|m| m != M_DEFAULT).unwrap_or(false), "a list that changes the style");
}

/// extended colours with a concrete control flow: the introducer and the form are fixed per
/// harness, the colour values are symbolic (all 256 / 2^24), followed by one concrete code
fn run_ext(target: u8, rgb: bool) {
    let mut codes = [0u8; 6];
    let mut n = 0;
    codes[n] = target;
    n += 1;
    if rgb {
        codes[n] = 2;
        codes[n + 1] = vk::any_u8();
        codes[n + 2] = vk::any_u8();
        codes[n + 3] = vk::any_u8();
        n += 4;
    } else {
        codes[n] = 5;
        codes[n + 1] = vk::any_u8();
        n += 2;
    }
    codes[n] = 1;
    n += 1;
    let mut parts = std::collections::VecDeque::with_capacity(6);
    let mut i = 0;
    while i < 6 {
        if i < n {
            parts.push_back(codes[i]);
        }
        i += 1;
    }
    let got = ls_core(parts);
    let want = ls_apply(&codes, n);
    assert!(got.is_some() && want.is_some(), "a well-formed list yields a style");
    assert!(model_of(got.unwrap()) == want.unwrap(), "extended colours (38/48/58 ; 5 ; n and ; 2 ; r ; g ; b) set exactly their slot and the following code still applies");
}

macro_rules! ext {
    ($name:ident, $t:expr, $rgb:expr) => {
        #[cfg_attr(kani, kani::proof, kani::unwind(14))]
        #[cfg_attr(not(kani), test)]
        fn $name() {
            run_ext($t, $rgb);
        }
    };
}
ext!(ls_ext_idx_38, 38, false);
ext!(ls_ext_idx_48, 48, false);
ext!(ls_ext_idx_58, 58, false);
ext!(ls_ext_rgb_38, 38, true);
ext!(ls_ext_rgb_48, 48, true);
ext!(ls_ext_rgb_58, 58, true);

#[cfg_attr(kani, kani::proof, kani::unwind(14))]
#[cfg_attr(not(kani), test)]
fn ls_codes_1() {
    run_codes::<1>();
}

#[cfg_attr(kani, kani::proof, kani::unwind(14))]
#[cfg_attr(not(kani), test)]
fn ls_codes_2() {
    run_codes::<2>();
}

#[cfg_attr(kani, kani::proof, kani::unwind(14))]
#[cfg_attr(not(kani), test)]
fn ls_codes_3() {
    run_codes::<3>();
}

#[cfg_attr(kani, kani::proof, kani::unwind(14))]
#[cfg_attr(not(kani), test)]
fn ls_codes_5() {
    run_codes::<5>();
}

#[cfg_attr(kani, kani::proof, kani::unwind(14))]
#[cfg_attr(not(kani), test)]
fn ls_codes_6() {
    run_codes::<6>();
}
