//! C12 — the LS_COLORS parser applies SGR codes left to right (see ls_core.tmpl.rs).
#![allow(dead_code, unused_imports, missing_docs, unreachable_pub, clippy::all)]
pub(crate) mod vk;
pub(crate) mod spec_sgr;
pub(crate) mod astyle;
pub(crate) mod amodel;
mod ls_core;
