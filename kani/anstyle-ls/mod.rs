//! C12 — the LS_COLORS parser applies SGR codes left to right (see ls_core.tmpl.rs).
#![allow(dead_code, unused_imports, missing_docs, unreachable_pub, clippy::all)]
pub(crate) mod vk;
pub(crate) mod spec_sgr;
pub(crate) mod astyle;
pub(crate) mod amodel;
mod ls_core;

// ---- the whole of `parse` (tokeniser and early returns included) on CONCRETE strings: a bounded
// stand-in for the part of the function that the cut-out loop (ls_core) does not contain ----

fn ls_expect(code: &str, want: Option<anstyle::Style>) {
    assert!(crate::parse(code) == want, "parse: no style for the empty string, `0`, `00` and anything that is not a `;`-separated list of numbers 0-255; otherwise the codes applied left to right");
}

macro_rules! ls_strings {
    ($name:ident, $body:block) => {
        #[cfg_attr(kani, kani::proof, kani::unwind(20))]
        #[cfg_attr(not(kani), test)]
        fn $name() $body
    };
}

ls_strings!(ls_text_no_style, {
    ls_expect("", None);
    ls_expect("0", None);
    ls_expect("00", None);
});
ls_strings!(ls_text_rejects, {
    ls_expect("x", None);
    ls_expect("1;x", None);
    ls_expect("1;;31", None);
    ls_expect("256", None);
    ls_expect("1;-1", None);
    ls_expect(";", None);
    ls_expect("1 ;31", None);
    ls_expect("1:31", None);
});
ls_strings!(ls_text_accepts, {
    use anstyle::{AnsiColor, Color, Effects, Style};
    ls_expect("1", Some(Style::new().bold()));
    ls_expect("01;31", Some(Style::new().bold().fg_color(Some(Color::Ansi(AnsiColor::Red)))));
    ls_expect("000", Some(Style::new()));
    ls_expect("31;0", Some(Style::new()));
});

/// NOT REGISTERED (CBMC: > 8 min, > 6 GB, growing).  The tokeniser's accept / reject decision for EVERY ASCII string of up to 3 bytes (bytes
/// symbolic): a style is returned iff the string is a `;`-separated list of decimal numbers 0-255
/// and is not "", "0" or "00".  (A leading `+`, which Rust's integer parser accepts, is outside
/// the statement: unconstrained.)
#[cfg_attr(kani, kani::proof, kani::unwind(8))]
#[cfg_attr(not(kani), test)]
fn ls_text_any_ascii_3() {
    let buf = [vk::any_u8_in(0, 0x7f), vk::any_u8_in(0, 0x7f), vk::any_u8_in(0, 0x7f)];
    let len = vk::any_usize_in(0, 3);
    let s = core::str::from_utf8(&buf[..len]).unwrap();
    let got = crate::parse(s).is_some();
    // reference tokeniser (one pass)
    let mut ok = true;
    let mut plus = false;
    let mut digits = 0usize;
    let mut val: u32 = 0;
    let mut i = 0;
    while i < 3 {
        if i < len {
            let b = buf[i];
            if b == b';' {
                if digits == 0 { ok = false; }
                digits = 0;
                val = 0;
            } else if b'0' <= b && b <= b'9' {
                digits += 1;
                val = val * 10 + (b - b'0') as u32;
                if val > 255 { ok = false; }
            } else if b == b'+' {
                plus = true;
            } else {
                ok = false;
            }
        }
        i += 1;
    }
    if digits == 0 { ok = false; }
    let special = len == 0 || (len == 1 && buf[0] == b'0') || (len == 2 && buf[0] == b'0' && buf[1] == b'0');
    if !plus {
        assert!(got == (ok && !special), "parse returns a style iff the text is a `;`-separated list of numbers 0-255 other than the empty string, `0` and `00`");
    }
    vk::vk_cover!(got && len == 3, "three-byte list accepted");
    vk::vk_cover!(!got && ok && special, "`0` / `00`");
}
