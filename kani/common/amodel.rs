//! abstraction of `anstyle::Style` to the S4 model (crates that depend on anstyle)
#![allow(dead_code, unused_imports, missing_docs, unreachable_pub, clippy::all)]
use super::astyle::*;
use super::spec_sgr::*;
use anstyle::{Ansi256Color, AnsiColor, Color, Effects, RgbColor, Style};

pub(crate) fn ansi_index(c: AnsiColor) -> u8 {
    match c {
        AnsiColor::Black => 0, AnsiColor::Red => 1, AnsiColor::Green => 2, AnsiColor::Yellow => 3,
        AnsiColor::Blue => 4, AnsiColor::Magenta => 5, AnsiColor::Cyan => 6, AnsiColor::White => 7,
        AnsiColor::BrightBlack => 8, AnsiColor::BrightRed => 9, AnsiColor::BrightGreen => 10,
        AnsiColor::BrightYellow => 11, AnsiColor::BrightBlue => 12, AnsiColor::BrightMagenta => 13,
        AnsiColor::BrightCyan => 14, AnsiColor::BrightWhite => 15,
    }
}

pub(crate) fn mcolor(c: Option<Color>) -> MColor {
    match c {
        None => MColor::Default,
        Some(Color::Ansi(a)) => MColor::Ansi(ansi_index(a)),
        Some(Color::Ansi256(i)) => MColor::Idx(i.0),
        Some(Color::Rgb(c)) => MColor::Rgb(c.0, c.1, c.2),
    }
}

pub(crate) fn bits_of(e: Effects) -> u16 {
    let mut bits = 0u16;
    let mut i = 0;
    while i < 12 {
        if e.contains(ALL[i]) {
            bits |= 1 << i;
        }
        i += 1;
    }
    bits
}

/// exact abstraction (an underline colour given as a palette colour stays a palette colour here)
pub(crate) fn model_of(s: Style) -> MStyle {
    MStyle { fg: mcolor(s.get_fg_color()), bg: mcolor(s.get_bg_color()), ul: mcolor(s.get_underline_color()), eff: bits_of(s.get_effects()) }
}
