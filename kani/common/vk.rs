//! `vk` — the only source of nondeterminism in the harnesses.
//!
//! Under Kani every `vk::any_*` is `kani::any()`.  In a native replay build
//! (`--cfg verif_replay`, harnesses become `#[test]`s) the same calls pop the
//! values Kani's counterexample reported, in the same order, from the
//! environment variable VERIF_REPLAY_VALUES ("b,b;b;b,b,b,b" — one group of
//! little-endian bytes per `kani::any()` call).  A harness therefore runs the
//! *same source* against the real crate natively, which is how a failed
//! obligation is confirmed as a VIOLATION.
#![allow(dead_code, unused_macros, unused_imports, unreachable_pub, missing_docs)]

#[cfg(not(kani))]
mod replay {
    use std::cell::RefCell;
    thread_local! {
        static VALUES: RefCell<Option<std::collections::VecDeque<Vec<u8>>>> = RefCell::new(None);
    }
    pub(crate) fn next(width: usize) -> Vec<u8> {
        VALUES.with(|v| {
            let mut v = v.borrow_mut();
            if v.is_none() {
                let raw = std::env::var("VERIF_REPLAY_VALUES").unwrap_or_default();
                let mut q = std::collections::VecDeque::new();
                for grp in raw.split(';') {
                    if grp.trim().is_empty() {
                        continue;
                    }
                    q.push_back(grp.split(',').map(|b| b.trim().parse::<u8>().expect("byte")).collect());
                }
                *v = Some(q);
            }
            match v.as_mut().unwrap().pop_front() {
                Some(mut g) => {
                    g.resize(width, 0);
                    g
                }
                // Kani omits trailing values that do not influence the failure
                None => vec![0; width],
            }
        })
    }
}

#[cfg(kani)]
pub(crate) fn any_u8() -> u8 {
    kani::any()
}
#[cfg(not(kani))]
pub(crate) fn any_u8() -> u8 {
    replay::next(1)[0]
}

#[cfg(kani)]
pub(crate) fn any_bool() -> bool {
    kani::any()
}
#[cfg(not(kani))]
pub(crate) fn any_bool() -> bool {
    replay::next(1)[0] != 0
}

#[cfg(kani)]
pub(crate) fn any_u16() -> u16 {
    kani::any()
}
#[cfg(not(kani))]
pub(crate) fn any_u16() -> u16 {
    let b = replay::next(2);
    u16::from_le_bytes([b[0], b[1]])
}

#[cfg(kani)]
pub(crate) fn any_u32() -> u32 {
    kani::any()
}
#[cfg(not(kani))]
pub(crate) fn any_u32() -> u32 {
    let b = replay::next(4);
    u32::from_le_bytes([b[0], b[1], b[2], b[3]])
}

#[cfg(kani)]
pub(crate) fn any_usize() -> usize {
    kani::any()
}
#[cfg(not(kani))]
pub(crate) fn any_usize() -> usize {
    let b = replay::next(8);
    usize::from_le_bytes([b[0], b[1], b[2], b[3], b[4], b[5], b[6], b[7]])
}

/// value in lo..=hi
pub(crate) fn any_u8_in(lo: u8, hi: u8) -> u8 {
    let v = any_u8();
    assume(lo <= v && v <= hi);
    v
}

pub(crate) fn any_usize_in(lo: usize, hi: usize) -> usize {
    let v = any_usize();
    assume(lo <= v && v <= hi);
    v
}

#[cfg(kani)]
pub(crate) fn assume(c: bool) {
    kani::assume(c)
}
#[cfg(not(kani))]
pub(crate) fn assume(c: bool) {
    if !c {
        // the recorded values do not satisfy the harness precondition natively
        println!("VERIF-REPLAY: assumption violated");
        std::process::exit(86);
    }
}

/// reachability witness (vacuity guard): must be SATISFIED under Kani
macro_rules! vk_cover {
    ($c:expr, $m:expr) => {
        #[cfg(kani)]
        kani::cover!($c, $m);
        #[cfg(not(kani))]
        {
            let _ = $c;
        }
    };
}
pub(crate) use vk_cover;
