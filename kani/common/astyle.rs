//! Symbolic `anstyle` values through the public API (for crates that depend on anstyle).
#![allow(dead_code, unused_imports, missing_docs, unreachable_pub, clippy::all)]
use super::vk;
use anstyle::{Ansi256Color, AnsiColor, Color, Effects, RgbColor, Style};

pub(crate) const ALL: [Effects; 12] = [
    Effects::BOLD, Effects::DIMMED, Effects::ITALIC, Effects::UNDERLINE, Effects::DOUBLE_UNDERLINE,
    Effects::CURLY_UNDERLINE, Effects::DOTTED_UNDERLINE, Effects::DASHED_UNDERLINE, Effects::BLINK,
    Effects::INVERT, Effects::HIDDEN, Effects::STRIKETHROUGH,
];
pub(crate) const BOLD: u16 = 1 << 0;
pub(crate) const DIMMED: u16 = 1 << 1;
pub(crate) const ITALIC: u16 = 1 << 2;
pub(crate) const UNDERLINE: u16 = 1 << 3;
pub(crate) const BLINK: u16 = 1 << 8;
pub(crate) const INVERT: u16 = 1 << 9;
pub(crate) const HIDDEN: u16 = 1 << 10;
pub(crate) const STRIKETHROUGH: u16 = 1 << 11;

pub(crate) fn ansi_from_index(i: u8) -> AnsiColor {
    match i {
        0 => AnsiColor::Black, 1 => AnsiColor::Red, 2 => AnsiColor::Green, 3 => AnsiColor::Yellow,
        4 => AnsiColor::Blue, 5 => AnsiColor::Magenta, 6 => AnsiColor::Cyan, 7 => AnsiColor::White,
        8 => AnsiColor::BrightBlack, 9 => AnsiColor::BrightRed, 10 => AnsiColor::BrightGreen,
        11 => AnsiColor::BrightYellow, 12 => AnsiColor::BrightBlue, 13 => AnsiColor::BrightMagenta,
        14 => AnsiColor::BrightCyan, _ => AnsiColor::BrightWhite,
    }
}

/// abstract colour: (tag, a, b, c): 0 = palette index a (0..16), 1 = 256-index a, 2 = rgb
#[derive(Copy, Clone, PartialEq, Eq, Debug)]
pub(crate) struct AColor {
    pub(crate) tag: u8,
    pub(crate) a: u8,
    pub(crate) b: u8,
    pub(crate) c: u8,
}

pub(crate) fn any_acolor() -> AColor {
    let tag = vk::any_u8_in(0, 2);
    let a = vk::any_u8();
    if tag == 0 {
        vk::assume(a < 16);
    }
    AColor { tag, a, b: vk::any_u8(), c: vk::any_u8() }
}

pub(crate) fn color_of(x: AColor) -> Color {
    if x.tag == 0 {
        Color::Ansi(ansi_from_index(x.a))
    } else if x.tag == 1 {
        Color::Ansi256(Ansi256Color(x.a))
    } else {
        Color::Rgb(RgbColor(x.a, x.b, x.c))
    }
}

pub(crate) fn any_opt_acolor() -> Option<AColor> {
    if vk::any_bool() { Some(any_acolor()) } else { None }
}

pub(crate) fn effects_of(bits: u16) -> Effects {
    let mut e = Effects::new();
    let mut i = 0;
    while i < 12 {
        if bits & (1 << i) != 0 {
            e = e.insert(ALL[i]);
        }
        i += 1;
    }
    e
}

pub(crate) struct AStyle {
    pub(crate) fg: Option<AColor>,
    pub(crate) bg: Option<AColor>,
    pub(crate) ul: Option<AColor>,
    pub(crate) eff: u16,
}

pub(crate) fn any_astyle() -> AStyle {
    let eff = vk::any_u16();
    vk::assume(eff < 4096);
    AStyle { fg: any_opt_acolor(), bg: any_opt_acolor(), ul: any_opt_acolor(), eff }
}

pub(crate) fn style_of(s: &AStyle) -> Style {
    Style::new()
        .fg_color(s.fg.map(color_of))
        .bg_color(s.bg.map(color_of))
        .underline_color(s.ul.map(color_of))
        .effects(effects_of(s.eff))
}
