//! C09 — the command-line flag maps one-to-one onto the global choice
#![allow(dead_code, unused_imports, missing_docs, unreachable_pub, clippy::all)]
pub(crate) mod vk;

#[cfg_attr(kani, kani::proof)]
#[cfg_attr(not(kani), test)]
fn clap_flag_mapping() {
    let k = vk::any_u8_in(0, 2);
    let flag = match k {
        0 => clap::ColorChoice::Auto,
        1 => clap::ColorChoice::Always,
        _ => clap::ColorChoice::Never,
    };
    let got = crate::Color { color: flag }.as_choice();
    let want = match k {
        0 => colorchoice::ColorChoice::Auto,
        1 => colorchoice::ColorChoice::Always,
        _ => colorchoice::ColorChoice::Never,
    };
    assert!(got == want, "--color auto|always|never maps to the global choice of the same name");
}
