//! child of `auto` (appended `mod` line in the scratch copy): C08 (AutoStream modes), C09 (the
//! precedence chain of the automatic decision) and the lock discipline part of C19.
#![allow(dead_code, unused_imports, missing_docs, unreachable_pub, clippy::all, static_mut_refs)]
use super::*;
use crate::stream::verif_kani_mock::{CountMock, Mock};
use crate::verif_kani::vk;
use std::io::Write as _;

// ---- C09: choice() against its callees' contracts (every probe replaced by a free value) ----

static mut G_GLOBAL: u8 = 0;
static mut G_NO_COLOR: bool = false;
static mut G_FORCE: bool = false;
static mut G_CLICOLOR: u8 = 0; // 0 unset, 1 Some(false) i.e. "0", 2 Some(true)
static mut G_TERM: bool = false;
static mut G_CI: bool = false;

fn choice_of(i: u8) -> ColorChoice {
    match i {
        0 => ColorChoice::Auto,
        1 => ColorChoice::AlwaysAnsi,
        2 => ColorChoice::Always,
        _ => ColorChoice::Never,
    }
}

fn stub_global() -> ColorChoice {
    unsafe { choice_of(G_GLOBAL) }
}
fn stub_no_color() -> bool {
    unsafe { G_NO_COLOR }
}
fn stub_force() -> bool {
    unsafe { G_FORCE }
}
fn stub_clicolor() -> Option<bool> {
    unsafe {
        match G_CLICOLOR {
            0 => None,
            1 => Some(false),
            _ => Some(true),
        }
    }
}
fn stub_term() -> bool {
    unsafe { G_TERM }
}
fn stub_ci() -> bool {
    unsafe { G_CI }
}

fn set_env_free() -> (u8, bool, bool, u8, bool, bool) {
    let v = (vk::any_u8_in(0, 3), vk::any_bool(), vk::any_bool(), vk::any_u8_in(0, 2), vk::any_bool(), vk::any_bool());
    unsafe {
        G_GLOBAL = v.0;
        G_NO_COLOR = v.1;
        G_FORCE = v.2;
        G_CLICOLOR = v.3;
        G_TERM = v.4;
        G_CI = v.5;
    }
    // native replay: there are no stubs, so the same situation is set up in the real process
    // environment and the real probes run
    #[cfg(not(kani))]
    {
        fn put(k: &str, val: Option<&str>) {
            match val {
                Some(x) => std::env::set_var(k, x),
                None => std::env::remove_var(k),
            }
        }
        choice_of(v.0).write_global();
        put("NO_COLOR", if v.1 { Some("1") } else { None });
        put("CLICOLOR_FORCE", if v.2 { Some("1") } else { None });
        put("CLICOLOR", match v.3 { 0 => None, 1 => Some("0"), _ => Some("1") });
        put("TERM", if v.4 { Some("xterm-256color") } else { Some("dumb") });
        put("CI", if v.5 { Some("true") } else { None });
    }
    v
}

/// the statement's precedence chain, verbatim
fn want_choice(global: u8, no_color: bool, force: bool, clicolor: u8, term: bool, ci: bool, terminal: bool) -> ColorChoice {
    if global != 0 {
        choice_of(global)
    } else if no_color {
        ColorChoice::Never
    } else if force {
        ColorChoice::Always
    } else if clicolor == 1 {
        ColorChoice::Never
    } else if terminal && (term || clicolor == 2 || ci) {
        ColorChoice::Always
    } else {
        ColorChoice::Never
    }
}

/// all 4 x 2 x 2 x 3 x 2 x 2 x 2 combinations (complete for the decision function)
#[cfg_attr(kani, kani::proof,
    kani::stub(colorchoice::ColorChoice::global, stub_global),
    kani::stub(anstyle_query::no_color, stub_no_color),
    kani::stub(anstyle_query::clicolor_force, stub_force),
    kani::stub(anstyle_query::clicolor, stub_clicolor),
    kani::stub(anstyle_query::term_supports_color, stub_term),
    kani::stub(anstyle_query::is_ci, stub_ci))]
#[cfg_attr(not(kani), test)]
fn auto_choice_precedence() {
    let (g, nc, f, cc, t, ci) = set_env_free();
    let mut m = Mock::new(0);
    m.terminal = vk::any_bool();
    let got = choice(&m);
    assert!(got == want_choice(g, nc, f, cc, t, ci, m.terminal), "the automatic colour decision follows the documented precedence");
    assert!(AutoStream::choice(&m) == got, "AutoStream::choice is the decision function");
    vk::vk_cover!(g == 0 && !nc && !f && cc == 0 && m.terminal && ci && !t, "CI alone enables colour on a terminal");
    vk::vk_cover!(g == 0 && nc && f, "NO_COLOR beats CLICOLOR_FORCE");
}

/// AutoStream::auto builds the stream the decision selects
#[cfg_attr(kani, kani::proof,
    kani::stub(colorchoice::ColorChoice::global, stub_global),
    kani::stub(anstyle_query::no_color, stub_no_color),
    kani::stub(anstyle_query::clicolor_force, stub_force),
    kani::stub(anstyle_query::clicolor, stub_clicolor),
    kani::stub(anstyle_query::term_supports_color, stub_term),
    kani::stub(anstyle_query::is_ci, stub_ci))]
fn auto_auto_uses_choice() {
    let (g, nc, f, cc, t, ci) = set_env_free();
    let mut m = Mock::new(0);
    m.terminal = vk::any_bool();
    let term = m.terminal;
    let s = AutoStream::auto(m);
    let want = want_choice(g, nc, f, cc, t, ci, term);
    // on this platform Always and AlwaysAnsi are the same pass-through stream
    let reported = s.current_choice();
    if want == ColorChoice::Never {
        assert!(reported == ColorChoice::Never, "auto() strips when the decision is Never");
    } else {
        assert!(reported == ColorChoice::AlwaysAnsi, "auto() passes through when the decision enables colour");
    }
}

// ---- C08: constructor dispatch, reported mode, into_inner ----

#[cfg_attr(kani, kani::proof)]
fn auto_new_dispatch() {
    let c = choice_of(vk::any_u8_in(1, 3));
    let s = AutoStream::new(Mock::new(0), c);
    match c {
        ColorChoice::Never => {
            assert!(matches!(s.inner, StreamInner::Strip(_)), "Never builds a stripping stream");
            assert!(s.current_choice() == ColorChoice::Never, "a stripping stream reports Never");
        }
        _ => {
            assert!(matches!(s.inner, StreamInner::PassThrough(_)), "AlwaysAnsi (and Always off Windows) builds a pass-through stream");
            assert!(s.current_choice() == ColorChoice::AlwaysAnsi, "a pass-through stream reports AlwaysAnsi");
        }
    }
    let never = AutoStream::never(Mock::new(0));
    assert!(matches!(never.inner, StreamInner::Strip(_)), "never() strips");
    let ansi = AutoStream::always_ansi(Mock::new(0));
    assert!(matches!(ansi.inner, StreamInner::PassThrough(_)), "always_ansi() passes through");
    let always = AutoStream::always(Mock::new(0));
    assert!(matches!(always.inner, StreamInner::PassThrough(_)), "always() passes through on non-Windows platforms");
}

/// pass-through: every Write method forwards the bytes unchanged, through one lock acquisition,
/// and into_inner returns what was delivered (buffer <= 3 symbolic bytes; BOUNDED in length only)
#[cfg_attr(kani, kani::proof, kani::unwind(12))]
fn auto_passthrough_forwards() {
    let buf = [vk::any_u8(), vk::any_u8(), vk::any_u8()];
    let len = vk::any_usize_in(0, 3);
    let which = vk::any_u8_in(0, 3);
    let mut s = AutoStream::always_ansi(Mock::new(0));
    let mut expect_len = len;
    if which == 0 {
        let r = s.write(&buf[..len]);
        assert!(matches!(r, Ok(n) if n == len), "pass-through write reports what the inner writer accepted");
    } else if which == 1 {
        assert!(s.write_all(&buf[..len]).is_ok(), "pass-through write_all succeeds on a good writer");
    } else if which == 2 {
        let empty: &[u8] = b"";
        let bufs = [std::io::IoSlice::new(empty), std::io::IoSlice::new(&buf[..len])];
        let r = s.write_vectored(&bufs);
        // the default write_vectored of the inner writer writes the first non-empty buffer
        assert!(matches!(r, Ok(n) if n == len), "pass-through write_vectored forwards to the inner writer");
    } else {
        assert!(s.flush().is_ok(), "pass-through flush succeeds");
        expect_len = 0;
    }
    let m = s.into_inner();
    assert!(m.len == expect_len && !m.overflow, "pass-through delivers every byte");
    let mut i = 0;
    while i < 3 {
        if i < expect_len {
            assert!(m.log[i] == buf[i], "pass-through forwards every byte unchanged, in order");
        }
        i += 1;
    }
    assert!(m.locks == 1, "every Write method of AutoStream acquires the inner lock exactly once");
    assert!(m.flushes == if which == 3 { 1 } else { 0 }, "flush reaches the inner writer exactly when asked");
}

/// strip arm: AutoStream forwards each method to StripStream's (same effect, same result)
#[cfg_attr(kani, kani::proof, kani::unwind(12),
    kani::stub(crate::adapter::strip::next_bytes, crate::adapter::verif_kani_strip_scan::next_bytes_recorder))]
fn auto_never_is_strip_stream() {
    let which = vk::any_u8_in(0, 3);
    let data: &[u8] = b"ab";
    let mut s = AutoStream::never(Mock::new(0));
    if which == 0 {
        assert!(s.write(data).is_ok(), "write succeeds on a good writer");
    } else if which == 1 {
        assert!(s.write_all(data).is_ok(), "write_all succeeds on a good writer");
    } else if which == 2 {
        // an empty first buffer: the strip stream writes the first NON-EMPTY one
        let empty: &[u8] = b"";
        let bufs = [std::io::IoSlice::new(empty), std::io::IoSlice::new(data)];
        let r = s.write_vectored(&bufs);
        assert!(r.is_ok(), "write_vectored succeeds on a good writer");
        let first = unsafe { crate::adapter::verif_kani_strip_scan::REC[0] };
        assert!(first.in_ptr == data.as_ptr() as usize && first.in_len == 2, "a Never stream's write_vectored strips the first non-empty buffer, like the strip stream's");
    } else {
        assert!(s.flush().is_ok(), "flush succeeds on a good writer");
    }
    // the scanner (replaced by its recording stand-in) was consulted iff bytes were written:
    // the Never stream goes through the strip stream's methods and nothing else
    let scans = unsafe { crate::adapter::verif_kani_strip_scan::REC_N };
    assert!((scans > 0) == (which != 3), "a Never stream routes every write through the strip stream");
    let m = s.into_inner();
    assert!(m.locks == 1, "every Write method of AutoStream acquires the inner lock exactly once");
    assert!(m.flushes == if which == 3 { 1 } else { 0 }, "flush reaches the inner writer exactly when asked");
}

// ---- C19 (sequential lock discipline): one formatted write = one lock acquisition ----

/// AutoStream::write_fmt, with `core::fmt::write` replaced by the two-fragment uninterpreted
/// formatter of strip_stream.rs: all fragments are written through a single acquisition of the
/// inner lock.  Pass-through arm: the text arrives as well.
#[cfg_attr(kani, kani::proof, kani::unwind(8),
    kani::stub(core::fmt::write, crate::verif_kani::fmt_stub::fmt_write_two_fragments))]
#[cfg_attr(not(kani), test)]
fn lock_write_fmt_once_pass() {
    let mut s = AutoStream::always_ansi(Mock::new(0));
    let (f1, f2) = (crate::verif_kani::fmt_stub::FRAG1, crate::verif_kani::fmt_stub::FRAG2);
    let r = s.write_fmt(format_args!("{f1}{f2}"));
    assert!(r.is_ok(), "a formatted write succeeds on a good writer");
    let m = s.into_inner();
    assert!(m.locks == 1, "one formatted write acquires the inner lock exactly once");
    assert!(m.len == 3 && m.log[0] == b'a' && m.log[1] == b'b' && m.log[2] == b'c', "the formatted text is delivered");
}

/// Strip arm, with the scanner replaced by its recording stand-in and a counting writer: one lock
/// acquisition however many fragments the formatter emits and runs the scanner yields
#[cfg_attr(kani, kani::proof, kani::unwind(8),
    kani::stub(crate::adapter::strip::next_bytes, crate::adapter::verif_kani_strip_scan::next_bytes_recorder),
    kani::stub(core::fmt::write, crate::verif_kani::fmt_stub::fmt_write_two_fragments))]
#[cfg_attr(not(kani), test)]
fn lock_write_fmt_once_strip() {
    let mut s = AutoStream::never(CountMock::new());
    let (f1, f2) = (crate::verif_kani::fmt_stub::FRAG1, crate::verif_kani::fmt_stub::FRAG2);
    let r = s.write_fmt(format_args!("{f1}{f2}"));
    assert!(r.is_ok(), "a formatted write succeeds on a good writer");
    // (the recorder only exists under Kani; the native replay runs the real scanner)
    #[cfg(kani)]
    {
        let scans = unsafe { crate::adapter::verif_kani_strip_scan::REC_N };
        assert!(scans >= 2, "a formatted write to a Never stream sends every fragment through the stripper");
    }
    let m = s.into_inner();
    assert!(m.locks == 1, "one formatted write acquires the inner lock exactly once");
}

/// C08, formatted writes on a Never stream: the fragments the formatter emits reach the stream's OWN
/// stripper as they are (in place), in order, starting from the stream's carried state and carrying
/// the state from one fragment to the next — nothing is rendered aside and stripped separately.
/// What the stripper then delivers is C06 (`stream_write_fmt_plumbing`).
#[cfg_attr(kani, kani::proof, kani::unwind(8),
    kani::stub(crate::adapter::strip::next_bytes, crate::adapter::verif_kani_strip_scan::next_bytes_recorder),
    kani::stub(core::fmt::write, crate::verif_kani::fmt_stub::fmt_write_two_fragments))]
#[cfg_attr(not(kani), test)]
fn auto_routed_write_fmt() {
    let mut s = AutoStream::never(CountMock::new());
    let (f1, f2) = (crate::verif_kani::fmt_stub::FRAG1, crate::verif_kani::fmt_stub::FRAG2);
    let r = s.write_fmt(format_args!("{f1}{f2}"));
    assert!(r.is_ok(), "a formatted write succeeds on a good writer");
    #[cfg(kani)]
    {
        use crate::adapter::verif_kani_strip_scan::{REC, REC_MAX, REC_N};
        let n = unsafe { REC_N };
        let c0 = unsafe { REC[0] };
        assert!(n >= 2 && c0.in_ptr == f1.as_ptr() as usize && c0.in_len == 2 && c0.in_state == anstyle_parse::state::State::Ground,
            "a formatted write to a Never stream hands the first fragment, as it is, to the stream's stripper in its carried state");
        let mut seen_second = false;
        let mut j = 1;
        while j < REC_MAX {
            if j < n {
                let (c, p) = unsafe { (REC[j], REC[j - 1]) };
                assert!(c.in_state == p.out_state, "the strip state is carried from one scanner call to the next across fragments");
                if c.in_ptr == f2.as_ptr() as usize && c.in_len == 1 {
                    seen_second = true;
                }
            }
            j += 1;
        }
        assert!(seen_second, "the second fragment reaches the same stripper, as it is, after the first");
    }
    let m = s.into_inner();
    assert!(m.locks == 1, "one formatted write acquires the inner lock exactly once");
}

// ---- C08, small pieces (the combined harnesses above exceed CBMC's reach: > 18 min, > 10 GB) ----

macro_rules! dispatch_case {
    ($name:ident, $choice:expr, $strip:expr, $reported:expr) => {
        #[cfg_attr(kani, kani::proof)]
        #[cfg_attr(not(kani), test)]
        fn $name() {
            let s = AutoStream::new(Mock::new(0), $choice);
            assert!(matches!(s.inner, StreamInner::Strip(_)) == $strip, "Never builds a stripping stream, AlwaysAnsi (and Always off Windows) a pass-through stream");
            assert!(s.current_choice() == $reported, "the mode reported for the stream is the one in force");
            let m = s.into_inner();
            assert!(m.len == 0 && m.calls == 0, "constructing and dismantling a stream writes nothing");
        }
    };
}
dispatch_case!(auto_new_never, ColorChoice::Never, true, ColorChoice::Never);
dispatch_case!(auto_new_ansi_always, ColorChoice::AlwaysAnsi, false, ColorChoice::AlwaysAnsi);
dispatch_case!(auto_new_always, ColorChoice::Always, false, ColorChoice::AlwaysAnsi);

macro_rules! passthrough_case {
    ($name:ident, $which:expr) => {
        #[cfg_attr(kani, kani::proof, kani::unwind(12))]
        #[cfg_attr(not(kani), test)]
        fn $name() {
            let buf = [vk::any_u8(), vk::any_u8()];
            let mut s = AutoStream::always_ansi(Mock::new(0));
            let mut expect_len = 2;
            if $which == 0 {
                let r = s.write(&buf);
                assert!(matches!(r, Ok(2)), "pass-through write reports what the inner writer accepted");
            } else if $which == 1 {
                assert!(s.write_all(&buf).is_ok(), "pass-through write_all succeeds on a good writer");
            } else if $which == 2 {
                let empty: &[u8] = b"";
                let bufs = [std::io::IoSlice::new(empty), std::io::IoSlice::new(&buf)];
                let r = s.write_vectored(&bufs);
                assert!(matches!(r, Ok(2)), "pass-through write_vectored forwards to the inner writer");
            } else {
                assert!(s.flush().is_ok(), "pass-through flush succeeds");
                expect_len = 0;
            }
            let m = s.into_inner();
            assert!(m.len == expect_len && !m.overflow, "pass-through delivers every byte");
            if expect_len == 2 {
                assert!(m.log[0] == buf[0] && m.log[1] == buf[1], "pass-through forwards every byte unchanged, in order");
            }
            assert!(m.locks == 1, "every Write method of AutoStream acquires the inner lock exactly once");
            assert!(m.flushes == if $which == 3 { 1 } else { 0 }, "flush reaches the inner writer exactly when asked");
        }
    };
}
passthrough_case!(auto_pass_one_write, 0);
passthrough_case!(auto_pass_all_write, 1);
passthrough_case!(auto_pass_vectored_write, 2);
passthrough_case!(auto_pass_flushes, 3);

macro_rules! never_case {
    ($name:ident, $which:expr) => {
        // concrete escape-bearing data through the real scanner: that the escape is gone shows the
        // call went through the strip stream (what stripping means for every input is C01/C06)
        #[cfg_attr(kani, kani::proof, kani::unwind(12))]
        fn $name() {
            let data: &[u8] = b"a\x1b[mb";
            let mut s = AutoStream::never(Mock::new(0));
            let mut expect = 2;
            if $which == 0 {
                // one run per call: "a" is delivered, the caller resubmits the rest
                let r = s.write(data);
                assert!(matches!(r, Ok(1)), "a Never stream's write behaves like the strip stream's");
                expect = 1;
            } else if $which == 1 {
                assert!(s.write_all(data).is_ok(), "write_all succeeds on a good writer");
            } else if $which == 2 {
                // an empty first buffer: the strip stream writes the first NON-EMPTY one
                let empty: &[u8] = b"";
                let bufs = [std::io::IoSlice::new(empty), std::io::IoSlice::new(data)];
                let r = s.write_vectored(&bufs);
                assert!(matches!(r, Ok(1)), "a Never stream's write_vectored strips the first non-empty buffer, like the strip stream's");
                expect = 1;
            } else {
                assert!(s.flush().is_ok(), "flush succeeds on a good writer");
                expect = 0;
            }
            let m = s.into_inner();
            assert!(m.len == expect && !m.overflow, "a Never stream delivers the stripped text");
            if expect >= 1 {
                assert!(m.log[0] == b'a', "a Never stream delivers the visible bytes");
            }
            if expect == 2 {
                assert!(m.log[1] == b'b', "a Never stream drops the escape sequence and keeps what follows");
            }
            assert!(m.locks == 1, "every Write method of AutoStream acquires the inner lock exactly once");
            assert!(m.flushes == if $which == 3 { 1 } else { 0 }, "flush reaches the inner writer exactly when asked");
        }
    };
}
never_case!(auto_never_one_write, 0);
never_case!(auto_never_all_write, 1);
never_case!(auto_never_vectored_write, 2);
never_case!(auto_never_flushes, 3);

// the same four cases with the scanner replaced by its recording stand-in (the contract of
// verus:strip_scan::next_bytes as an uninterpreted function): what reaches the scanner and how
// often shows that the call went through the strip stream, without CBMC unfolding the real scanner
macro_rules! never_routed_case {
    ($name:ident, $which:expr) => {
        #[cfg_attr(kani, kani::proof, kani::unwind(8),
            kani::stub(crate::adapter::strip::next_bytes, crate::adapter::verif_kani_strip_scan::next_bytes_recorder))]
        #[cfg_attr(not(kani), test)]
        fn $name() {
            let data: &[u8] = b"ab";
            let mut s = AutoStream::never(CountMock::new());
            if $which == 0 {
                assert!(s.write(data).is_ok(), "write succeeds on a good writer");
            } else if $which == 1 {
                assert!(s.write_all(data).is_ok(), "write_all succeeds on a good writer");
            } else if $which == 2 {
                let empty: &[u8] = b"";
                let bufs = [std::io::IoSlice::new(empty), std::io::IoSlice::new(data)];
                assert!(s.write_vectored(&bufs).is_ok(), "write_vectored succeeds on a good writer");
            } else {
                assert!(s.flush().is_ok(), "flush succeeds on a good writer");
            }
            // (the recorder only exists under Kani; the native replay runs the real scanner)
            #[cfg(kani)]
            {
                let scans = unsafe { crate::adapter::verif_kani_strip_scan::REC_N };
                assert!((scans > 0) == ($which != 3), "a Never stream routes every write through the strip stream");
                if $which != 3 {
                    let first = unsafe { crate::adapter::verif_kani_strip_scan::REC[0] };
                    assert!(first.in_ptr == data.as_ptr() as usize && first.in_len == 2, "a Never stream hands the caller's (first non-empty) buffer to the stripper");
                }
            }
            let m = s.into_inner();
            assert!(m.locks == 1, "every Write method of AutoStream acquires the inner lock exactly once");
            assert!(m.flushes == if $which == 3 { 1 } else { 0 }, "flush reaches the inner writer exactly when asked");
        }
    };
}
never_routed_case!(auto_routed_one_write, 0);
never_routed_case!(auto_routed_all_write, 1);
never_routed_case!(auto_routed_vectored_write, 2);
never_routed_case!(auto_routed_flushes, 3);
