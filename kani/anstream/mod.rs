//! Kani harnesses on the unmodified `anstream` crate.
#![allow(dead_code, unused_imports, missing_docs, unreachable_pub, clippy::all)]
pub(crate) mod vk;
pub(crate) mod spec_vt;
pub(crate) mod spec_strip;
pub(crate) mod util;
pub(crate) mod spec_sgr;
pub(crate) mod astyle;
pub(crate) mod amodel;
pub(crate) mod wincon_stream;
pub(crate) mod fmt_stub;
pub(crate) mod stream_methods;
