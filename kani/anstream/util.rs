//! shared helpers: symbolic parser states, the executable S3 scan model
#![allow(dead_code, unused_imports, missing_docs, unreachable_pub, clippy::all)]
use super::spec_strip::*;
use super::spec_vt::*;
use super::vk;
use anstyle_parse::state::{Action, State};

pub(crate) fn state_of(i: u8) -> State {
    match i {
        0 => State::Anywhere, 1 => State::CsiEntry, 2 => State::CsiIgnore, 3 => State::CsiIntermediate,
        4 => State::CsiParam, 5 => State::DcsEntry, 6 => State::DcsIgnore, 7 => State::DcsIntermediate,
        8 => State::DcsParam, 9 => State::DcsPassthrough, 10 => State::Escape, 11 => State::EscapeIntermediate,
        12 => State::Ground, 13 => State::OscString, 14 => State::SosPmApcString, _ => State::Utf8,
    }
}

pub(crate) fn action_of(i: u8) -> Action {
    match i {
        0 => Action::Nop, 1 => Action::Clear, 2 => Action::Collect, 3 => Action::CsiDispatch,
        4 => Action::EscDispatch, 5 => Action::Execute, 6 => Action::Hook, 7 => Action::Ignore,
        8 => Action::OscEnd, 9 => Action::OscPut, 10 => Action::OscStart, 11 => Action::Param,
        12 => Action::Print, 13 => Action::Put, 14 => Action::Unhook, _ => Action::BeginUtf8,
    }
}

/// any carried parser state except Anywhere (never a current state)
pub(crate) fn any_state() -> State {
    state_of(vk::any_u8_in(1, 15))
}

/// any carried parser state of the text API (never Utf8)
pub(crate) fn any_text_state() -> State {
    state_of(vk::any_u8_in(1, 14))
}

/// result of the S3 model for one call of the scan: (k, n, exit state, exit accumulator)
pub(crate) fn model_scan(s0: State, u0: u8, b: &[u8], len: usize) -> (usize, usize, State, u8) {
    let mut s = s0;
    let mut u = u0;
    let mut i = 0;
    while i < len {
        let t = strip_step(s, u, b[i]);
        if t.2 {
            break;
        }
        s = t.0;
        u = t.1;
        i += 1;
    }
    let k = i;
    while i < len {
        let t = strip_step(s, u, b[i]);
        if !t.2 {
            break;
        }
        s = t.0;
        u = t.1;
        i += 1;
    }
    if i < len && s == State::Utf8 && !sp_is_cont(b[i]) {
        // `settle`: the truncated character is already abandoned, the byte not yet consumed
        s = State::Ground;
        u = 0;
    }
    (k, i - k, s, u)
}

/// text model for one call: (k, n, exit state)
pub(crate) fn model_scan_str(s0: State, b: &[u8], len: usize) -> (usize, usize, State) {
    let mut s = s0;
    let mut ic = false;
    let mut i = 0;
    while i < len {
        let t = str_step(s, ic, b[i]);
        if t.2 {
            break;
        }
        s = t.0;
        ic = t.1;
        i += 1;
    }
    let k = i;
    while i < len {
        let t = str_step(s, ic, b[i]);
        if !t.2 {
            break;
        }
        s = t.0;
        ic = t.1;
        i += 1;
    }
    (k, i - k, s)
}
