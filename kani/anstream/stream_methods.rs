//! StripStream's `impl Write`, through the public API only: each method forwards once, through
//! one acquisition of the inner lock (C06 forwarding, C19 lock discipline).  The scanner is
//! replaced by its recording stand-in; the writer only counts.
#![allow(dead_code, unused_imports, missing_docs, unreachable_pub, clippy::all, static_mut_refs)]
use crate::adapter::verif_kani_strip_scan::{REC, REC_N};
use crate::stream::verif_kani_mock::CountMock;
use crate::StripStream;
use std::io::Write as _;

macro_rules! method_case {
    ($name:ident, $which:expr) => {
        #[cfg_attr(kani, kani::proof, kani::unwind(8),
            kani::stub(crate::adapter::strip::next_bytes, crate::adapter::verif_kani_strip_scan::next_bytes_recorder))]
        #[cfg_attr(not(kani), test)]
        fn $name() {
            let mut s = StripStream::new(CountMock::new());
            let data: &[u8] = b"ab";
            if $which == 0 {
                assert!(s.write(data).is_ok(), "write succeeds on a good writer");
            } else if $which == 1 {
                let empty: &[u8] = b"";
                let bufs = [std::io::IoSlice::new(empty), std::io::IoSlice::new(data)];
                assert!(s.write_vectored(&bufs).is_ok(), "write_vectored succeeds on a good writer");
            } else if $which == 2 {
                assert!(s.write_all(data).is_ok(), "write_all succeeds on a good writer");
            } else {
                assert!(s.flush().is_ok(), "flush succeeds on a good writer");
            }
            // (the recorder only exists under Kani; the native replay runs the real scanner)
            #[cfg(kani)]
            {
                let scans = unsafe { REC_N };
                assert!((scans > 0) == ($which != 3), "every write of a StripStream goes through the stripper, flush does not");
                if $which != 3 {
                    let first = unsafe { REC[0] };
                    assert!(first.in_ptr == data.as_ptr() as usize && first.in_len == 2, "the stripper is handed the caller's buffer (write_vectored: the first non-empty one)");
                }
            }
            let m = s.into_inner();
            assert!(m.locks == 1, "every Write method of StripStream acquires the inner lock exactly once");
            assert!(m.flushes == if $which == 3 { 1 } else { 0 }, "flush reaches the inner writer exactly when asked");
        }
    };
}
method_case!(stream_method_write_once, 0);
method_case!(stream_method_vectored_once, 1);
method_case!(stream_method_write_all_once, 2);
method_case!(stream_method_flush_once, 3);
