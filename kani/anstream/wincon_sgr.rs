//! child of `adapter::wincon` (appended `mod` line in the scratch copy): C07 — the SGR
//! interpreter of the styled-run extractor against S4, by enumerated parameter-list *shapes*
//! (which values are joined by ':' and which by ';') with fully symbolic u16 values and a
//! fully symbolic entry style.  BOUNDED in shape (lists of up to 6 values), complete in values.
#![allow(dead_code, unused_imports, missing_docs, unreachable_pub, clippy::all)]
use super::*;
use crate::verif_kani::amodel::*;
use crate::verif_kani::astyle::*;
use crate::verif_kani::spec_sgr::*;
use crate::verif_kani::vk;

/// single codes that S4 defines but the statement of C07 does not list (blink and the
/// individual resets 22-29, 59): neither applying nor ignoring them is demanded
fn outside_statement(v: u16) -> bool {
    v == 5 || (22 <= v && v <= 29) || v == 59
}

/// `seps[i]` = true when value i+1 is attached to value i by ':' (else ';')
fn run_shape<const N: usize>(seps: [bool; N], nvals: usize) {
    let entry = any_astyle();
    let entry_style = style_of(&entry);
    let pending = vk::any_bool();
    let mut cap = WinconCapture::default();
    cap.style = entry_style;
    if pending {
        cap.printable.push('x');
    }
    let mut params = anstyle_parse::Params::default();
    let mut mp = M_NOPARAMS;
    let mut open_code = false;
    let mut i = 0;
    while i < nvals {
        let v = vk::any_u16();
        mp.vals[i] = v;
        mp.colon[i] = i > 0 && seps[i - 1];
        if i + 1 < nvals && seps[i] {
            params.verif_extend(v);
        } else {
            params.verif_push(v);
        }
        i += 1;
    }
    mp.n = nvals;
    let ignore = vk::any_bool();
    let action = vk::any_u8();
    use anstyle_parse::Perform as _;
    cap.csi_dispatch(&params, &[], ignore, action);

    let before = model_of(entry_style);
    let after = model_of(cap.style);
    if ignore || action != b'm' {
        assert!(after == before && cap.ready.is_none(), "a CSI sequence that is not a complete SGR changes nothing");
    } else {
        let (want, cls) = sgr_apply(before, &mp);
        let mut listed = true;
        let mut j = 0;
        while j < nvals {
            // a plain code (not a sub-parameter, not an operand of 38/48/58) outside the statement
            if !mp.colon[j] && outside_statement(mp.vals[j]) {
                listed = false;
            }
            j += 1;
        }
        if cls == Spec::Defined && listed {
            assert!(after == want, "the style after an SGR sequence is the one a conforming terminal would have (S4)");
            assert!(cap.ready.is_some() == (pending && cap.style != entry_style), "a run is closed exactly when the style changes and text is pending");
            if let Some(r) = cap.ready {
                assert!(r == entry_style, "the closed run carries the style that was in effect for its text");
            }
        }
        vk::vk_cover!(cls == Spec::Defined && listed && after != before, "a defined sequence that changes the style");
    }
    vk::vk_cover!(ignore, "ignored sequence");
}

macro_rules! shape {
    ($name:ident, $n:expr, [$($s:expr),*]) => {
        #[cfg_attr(kani, kani::proof, kani::unwind(14))]
        #[cfg_attr(not(kani), test)]
        fn $name() {
            run_shape([$($s),*], $n);
        }
    };
}

// one value: every single code
shape!(sgr_shape_one, 1, [false]);
// a;b — two single codes ("combined equals separate")
shape!(sgr_shape_2_semi, 2, [false, false]);
// a:b — 4:n underline styles
shape!(sgr_shape_2_colon, 2, [true, false]);
// a;b;c — 38;5;n and triples of single codes
shape!(sgr_shape_3_semis, 3, [false, false, false]);
// a:b:c — 38:5:n
shape!(sgr_shape_3_colons, 3, [true, true, false]);
// a:b;c — an underline style followed by a single code (state must not leak across ';')
shape!(sgr_shape_3_colon_semi, 3, [true, false, false]);
// a;b:c — a single code followed by an underline style
shape!(sgr_shape_3_semi_colon, 3, [false, true, false]);
// a;b;c;d — 38;5;n followed by a single code (state must not leak after a colour)
shape!(sgr_shape_4_semi, 4, [false, false, false, false]);
// a:b:c;d — 38:5:n followed by a single code
shape!(sgr_shape_4_colon3_semi, 4, [true, true, false, false]);
// a;b;c;d;e — 38;2;r;g;b
shape!(sgr_shape_5_semi, 5, [false, false, false, false, false]);
// a:b:c:d:e — 38:2:r:g:b
shape!(sgr_shape_5_colon, 5, [true, true, true, true, false]);
// a;b;c;d;e;f — 38;2;r;g;b followed by a single code / 38;5;n;48;5;m
shape!(sgr_shape_6_semi, 6, [false, false, false, false, false, false]);

// a;b;c;d;e;f;g;h;i;j — two RGB groups in one sequence (38;2;r;g;b;48;2;r;g;b): the per-sequence
// accumulators must be reset between groups
shape!(sgr_shape_10_semi, 10, [false, false, false, false, false, false, false, false, false, false]);

/// print / execute: only printable characters and ASCII whitespace controls become text
#[cfg_attr(kani, kani::proof, kani::unwind(6))]
#[cfg_attr(not(kani), test)]
fn sgr_print_execute() {
    use anstyle_parse::Perform as _;
    let mut cap = WinconCapture::default();
    let b = vk::any_u8();
    cap.execute(b);
    let ws = b == 0x09 || b == 0x0a || b == 0x0c || b == 0x0d || b == 0x20;
    assert!(cap.printable.len() == if ws { 1 } else { 0 }, "execute keeps ASCII whitespace controls only");
    if ws {
        assert!(cap.printable.as_bytes()[0] == b, "execute keeps the whitespace byte itself");
    }
    assert!(cap.ready.is_none() && cap.style == anstyle::Style::new(), "execute does not touch the style");
    let mut cap2 = WinconCapture::default();
    cap2.print('x');
    assert!(cap2.printable == "x" && cap2.ready.is_none() && cap2.style == anstyle::Style::new(), "print appends the character and nothing else");
    // non-SGR callbacks are the trait's empty defaults
    cap2.esc_dispatch(&[], false, b);
    cap2.osc_dispatch(&[], false);
    cap2.put(b);
    cap2.unhook();
    assert!(cap2.printable == "x" && cap2.style == anstyle::Style::new(), "ESC / OSC / DCS callbacks change nothing");
}

/// to_ansi_color: digits 0-7 are the palette in order
#[cfg_attr(kani, kani::proof)]
#[cfg_attr(not(kani), test)]
fn sgr_to_ansi_color() {
    let d = vk::any_u16();
    let r = to_ansi_color(d);
    if d < 8 {
        assert!(r == Some(ansi_from_index(d as u8)), "to_ansi_color maps 0-7 to the eight base colours in order");
    } else {
        assert!(r.is_none(), "to_ansi_color rejects other digits");
    }
}

// ---- recording stand-in for the styled-run extractor (`next_bytes`): arbitrary runs ----
//
// The console stream (C18) only routes the runs the extractor yields; which runs those are is
// C02 + C07.  This stand-in yields up to two runs with arbitrary styles and 1-2 byte texts and
// records them, so that `wincon::write_all` / `write` are verified for every extractor answer.

pub(crate) const RUNS_MAX: usize = 2;
pub(crate) static mut RUN_N: usize = 0;
pub(crate) static mut RUN_TOTAL: usize = 0;
pub(crate) static mut RUN_STYLE: [Option<anstyle::Style>; RUNS_MAX] = [None; RUNS_MAX];
pub(crate) static mut RUN_PTR: [usize; RUNS_MAX] = [0; RUNS_MAX];
pub(crate) static mut RUN_LEN: [usize; RUNS_MAX] = [0; RUNS_MAX];
pub(crate) static mut EXTRACT_CALLS: usize = 0;
/// most runs the stand-in yields (a harness may lower it)
pub(crate) static mut RUN_LIMIT: usize = RUNS_MAX;
/// concrete number of runs / concrete text length (scripted harnesses); None = symbolic
pub(crate) static mut RUN_FORCE_TOTAL: Option<usize> = None;
pub(crate) static mut RUN_FORCE_TWO: Option<bool> = None;

pub(crate) fn wincon_next_recorder(
    bytes: &mut &[u8],
    _parser: &mut anstyle_parse::Parser,
    _capture: &mut WinconCapture,
) -> Option<(anstyle::Style, String)> {
    unsafe {
        EXTRACT_CALLS += 1;
        if EXTRACT_CALLS == 1 {
            RUN_TOTAL = match RUN_FORCE_TOTAL { Some(n) => n, None => vk::any_usize_in(0, RUN_LIMIT) };
        }
        if RUN_N >= RUN_TOTAL {
            // exhausted: the whole chunk has been consumed
            let all: &[u8] = *bytes;
            let (_, rest) = all.split_at(all.len());
            *bytes = rest;
            return None;
        }
        // arbitrary foreground and background (the only parts of a style the console stream looks at)
        let style = anstyle::Style::new().fg_color(any_opt_acolor().map(color_of)).bg_color(any_opt_acolor().map(color_of));
        // the console stream never looks at the text, only at where it is and how long: concrete
        // one- or two-byte texts (String::push with symbolic characters drags Vec growth and UTF-8
        // encoding into every path)
        let two = match RUN_FORCE_TWO { Some(b) => b, None => vk::any_bool() };
        let text = if two { String::from("ab") } else { String::from("a") };
        let i = RUN_N;
        RUN_STYLE[i] = Some(style);
        RUN_PTR[i] = text.as_ptr() as usize;
        RUN_LEN[i] = text.len();
        RUN_N += 1;
        Some((style, text))
    }
}

// ---- run emission: `next_bytes` over a chunk, the parser replaced by an uninterpreted event source ----
//
// C07 says *which* callbacks a byte stream causes (that is C02, `Parser::advance` against S2) and what
// each callback does to the style (the shape harnesses above).  What is left is `next_bytes`: it must
// cut the text into runs exactly where the style in effect changes, tag each run with the style that
// was in effect when its text was printed, lose nothing, and carry style and pending text correctly
// from one call to the next.  Here `Parser::advance` is replaced by a stand-in that performs, per
// input byte, an ARBITRARY one of: nothing, print, execute(LF), a style-setting SGR (`1`), a reset
// SGR (`0`), a non-SGR CSI — through the real `Perform` impl of `WinconCapture` — and logs it
// (`Parser::verif_advance_standin`, appended to the scratch copy of anstyle-parse: see inject.json).

pub(crate) const EV_MAX: usize = 4;

fn run_emission(n: usize, entry_bold: bool) {
    let mut parser = anstyle_parse::Parser::<anstyle_parse::DefaultCharAccumulator>::new();
    let mut cap = WinconCapture::default();
    let plain = anstyle::Style::new();
    let bold = anstyle::Style::new().bold();
    if entry_bold {
        cap.style = bold;
    }
    let chunk = [b'x'; EV_MAX];
    let mut bytes: &[u8] = &chunk[..n];
    // runs as delivered
    let mut got_n = 0usize;
    let mut got_bold = [false; EV_MAX];
    let mut got_len = [0usize; EV_MAX];
    let mut calls = 0;
    while calls <= n {
        calls += 1;
        match next_bytes(&mut bytes, &mut parser, &mut cap) {
            Some((style, text)) => {
                assert!(style == plain || style == bold, "a run carries a style that was in effect");
                assert!(!text.is_empty(), "no empty run is delivered");
                if got_n < EV_MAX {
                    got_bold[got_n] = style == bold;
                    got_len[got_n] = text.len();
                }
                got_n += 1;
            }
            None => break,
        }
    }
    assert!(bytes.is_empty(), "the whole chunk is consumed once the iterator is exhausted");
    assert!(cap.printable.is_empty(), "no text is left behind when the iterator is exhausted");
    let consumed = unsafe { anstyle_parse::VERIF_EV_N };
    assert!(consumed == n, "every byte is given to the parser exactly once");
    // reference: cut where the style in effect changes while text is pending
    let mut cur_bold = entry_bold;
    let mut pending = 0usize;
    let mut want_n = 0usize;
    let mut want_bold = [false; EV_MAX];
    let mut want_len = [0usize; EV_MAX];
    let mut cut = false;
    let mut i = 0;
    while i < n {
        let ev = unsafe { anstyle_parse::VERIF_EV_LOG[i] };
        if ev == 1 || ev == 2 {
            pending += 1;
        } else if ev == 3 || ev == 4 {
            let nb = ev == 3;
            if nb != cur_bold && pending > 0 {
                want_bold[want_n] = cur_bold;
                want_len[want_n] = pending;
                want_n += 1;
                pending = 0;
                cut = true;
            }
            cur_bold = nb;
        }
        i += 1;
    }
    if pending > 0 {
        want_bold[want_n] = cur_bold;
        want_len[want_n] = pending;
        want_n += 1;
    }
    assert!(got_n == want_n, "text is cut into runs exactly where the style in effect changes");
    let mut k = 0;
    while k < EV_MAX {
        if k < want_n {
            assert!(got_len[k] == want_len[k], "each run holds exactly the text printed under its style, in order");
            assert!(got_bold[k] == want_bold[k], "each run is tagged with the style in effect when its text was printed");
        }
        k += 1;
    }
    assert!((cap.style == bold) == cur_bold && (cap.style == plain) == !cur_bold, "the style in effect is carried to the next call");
    vk::vk_cover!(cut, "a run closed by a style change");
}

macro_rules! emission {
    ($name:ident, $n:expr, $bold:expr) => {
        #[cfg_attr(kani, kani::proof, kani::unwind(7), kani::stub(anstyle_parse::Parser::advance, anstyle_parse::Parser::verif_advance_standin))]
        fn $name() {
            run_emission($n, $bold);
        }
    };
}
emission!(sgr_run_emission_2_plain, 2, false);
emission!(sgr_run_emission_2_bold, 2, true);
emission!(sgr_run_emission_3_plain, 3, false);
emission!(sgr_run_emission_3_bold, 3, true);
emission!(sgr_run_emission_4_plain, 4, false);

// ---- frame of `extract_next`: starting a new chunk changes nothing that is carried ----
//
// "The style persists across sequences and across calls", and an escape sequence or a character
// cut by a chunk boundary continues in the next chunk (C03): `extract_next` may only clear the
// `ready` marker; parser state, style in effect and the chunk handed to the iterator are untouched.
// Carried parser states are reached by feeding concrete prefixes through the real parser.

fn extract_frame(prefix: &'static [u8]) {
    let mut st = WinconBytes::new();
    let entry = any_astyle();
    st.capture.style = style_of(&entry);
    let mut i = 0;
    while i < prefix.len() {
        st.parser.advance(&mut st.capture, prefix[i]);
        i += 1;
    }
    assert!(st.capture.printable.is_empty(), "harness: the prefixes produce no text");
    let saved_parser = st.parser.clone();
    let saved_style = st.capture.style;
    if vk::any_bool() {
        st.capture.ready = Some(anstyle::Style::new());
    }
    let chunk = [vk::any_u8(), vk::any_u8()];
    let n = vk::any_usize_in(0, 2);
    let it = st.extract_next(&chunk[..n]);
    assert!(*it.parser == saved_parser, "extract_next leaves the carried parser state alone: a sequence or character cut by the chunk boundary continues");
    assert!(it.capture.style == saved_style, "the style in effect persists across calls");
    assert!(it.capture.printable.is_empty() && it.capture.ready.is_none(), "a new chunk starts with no pending run marker and no invented text");
    assert!(it.bytes.as_ptr() == chunk.as_ptr() && it.bytes.len() == n, "the iterator is handed exactly the caller's chunk");
    vk::vk_cover!(n == 2 && chunk[0] < 0x80, "a chunk starting with an ASCII byte");
}

macro_rules! frame {
    ($name:ident, $prefix:expr) => {
        #[cfg_attr(kani, kani::proof, kani::unwind(66))]
        #[cfg_attr(not(kani), test)]
        fn $name() {
            extract_frame($prefix);
        }
    };
}
frame!(sgr_extract_frame_ground, b"");
frame!(sgr_extract_frame_esc, b"\x1b");
frame!(sgr_extract_frame_csi_param, b"\x1b[38;5");
frame!(sgr_extract_frame_csi_colon, b"\x1b[4:");
frame!(sgr_extract_frame_osc, b"\x1b]0;t");
frame!(sgr_extract_frame_utf8, b"\xe2\x82");
