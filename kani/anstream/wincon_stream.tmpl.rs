//! C18 — the legacy-console stream.  `crates/anstream/src/wincon.rs` is only compiled on
//! Windows (its `impl Write` needs the Windows-only `RawStream: WinconStream` bound), so its
//! three platform-independent functions are cut *verbatim* out of the working tree by
//! tools/extract.py (rules E1, E2 only) and compiled into this module on every run.
#![allow(dead_code, unused_imports, missing_docs, unreachable_pub, clippy::all)]
use crate::adapter::WinconBytes;
use crate::verif_kani::vk;
use std::io::ErrorKind;

//@fn crates/anstream/src/wincon.rs write
//@end

//@fn crates/anstream/src/wincon.rs write_all
//@end

//@fn crates/anstream/src/wincon.rs cap_wincon_color
//@end

const MAXC: usize = 8;

/// recording console: each call may accept any non-empty prefix, accept nothing, or fail
struct Console {
    calls: usize,
    fg: [Option<anstyle::AnsiColor>; MAXC],
    bg: [Option<anstyle::AnsiColor>; MAXC],
    /// bytes accepted over all calls, in order
    text: [u8; 16],
    len: usize,
    /// for each call: how many bytes were offered / accepted
    offered: [usize; MAXC],
    accepted: [usize; MAXC],
    faults_left: u8,
    saw_escape: bool,
    last_fatal: Option<ErrorKind>,
}

impl Console {
    fn new(faults: u8) -> Self {
        Console { calls: 0, fg: [None; MAXC], bg: [None; MAXC], text: [0; 16], len: 0, offered: [0; MAXC], accepted: [0; MAXC], faults_left: faults, saw_escape: false, last_fatal: None }
    }
}

impl anstyle_wincon::WinconStream for Console {
    fn write_colored(&mut self, fg: Option<anstyle::AnsiColor>, bg: Option<anstyle::AnsiColor>, data: &[u8]) -> std::io::Result<usize> {
        let i = self.calls;
        self.calls += 1;
        let mut take = data.len();
        if self.faults_left > 0 && vk::any_bool() {
            self.faults_left -= 1;
            let what = vk::any_u8_in(0, 2);
            if what == 0 {
                return Err(ErrorKind::Interrupted.into());
            } else if what == 1 {
                self.last_fatal = Some(ErrorKind::Other);
                return Err(ErrorKind::Other.into());
            }
            take = vk::any_usize_in(0, data.len());
            if take == 0 && !data.is_empty() {
                self.last_fatal = Some(ErrorKind::WriteZero);
            }
        }
        if i < MAXC {
            self.fg[i] = fg;
            self.bg[i] = bg;
            self.offered[i] = data.len();
            self.accepted[i] = take;
        }
        let mut k = 0;
        while k < take {
            if data[k] == 0x1b {
                self.saw_escape = true;
            }
            if self.len < 16 {
                self.text[self.len] = data[k];
                self.len += 1;
            }
            k += 1;
        }
        Ok(take)
    }
}

/// cap_wincon_color: 16-colour values kept, indices 0-15 mapped to the palette, everything else default
#[cfg_attr(kani, kani::proof)]
#[cfg_attr(not(kani), test)]
fn wincon_cap_color() {
    use crate::verif_kani::astyle::*;
    let c = any_acolor();
    let got = cap_wincon_color(color_of(c));
    let want = if c.tag == 0 { Some(ansi_from_index(c.a)) } else if c.tag == 1 && c.a < 16 { Some(ansi_from_index(c.a)) } else { None };
    assert!(got == want, "console colours: 16-colour kept, 256-colour indices 0-15 mapped to their palette colour, other colours fall back to the default");
    vk::vk_cover!(c.tag == 1 && c.a == 15, "index 15");
    vk::vk_cover!(c.tag == 1 && c.a == 16, "index 16");
}

/// concrete styled inputs: the runs a conforming terminal would show, with capped colours
struct Expect {
    input: &'static [u8],
    text: &'static [u8],
    /// (length, fg index or 16, bg index or 16) per run
    runs: &'static [(usize, u8, u8)],
}

const CASES: [Expect; 4] = [
    Expect { input: b"a\x1b[31mbc\x1b[0md", text: b"abcd", runs: &[(1, 16, 16), (2, 1, 16), (1, 16, 16)] },
    Expect { input: b"\x1b[38;5;9mx\x1b[48;2;1;2;3my\x1b[38;5;200mz", text: b"xyz", runs: &[(1, 9, 16), (1, 9, 16), (1, 16, 16)] },
    Expect { input: b"\x1b[1;44m\xc3\xa9\x1b]0;t\x07!", text: b"\xc3\xa9!", runs: &[(3, 16, 4)] },
    Expect { input: b"p\x1b[97;100mq\x1b[39mr", text: b"pqr", runs: &[(1, 16, 16), (1, 15, 8), (1, 16, 8)] },
];

fn color_at(i: u8) -> Option<anstyle::AnsiColor> {
    if i < 16 { Some(crate::verif_kani::astyle::ansi_from_index(i)) } else { None }
}

/// write_all against every console script with <= 2 misbehaving calls
fn write_all_case(k: usize) {
    let case = &CASES[k];
    let mut console = Console::new(2);
    let mut state = WinconBytes::new();
    let r = write_all(&mut console, &mut state, case.input);
    assert!(!console.saw_escape, "an escape byte is never passed to the console as text");
    match &r {
        Ok(()) => {
            assert!(console.last_fatal.is_none(), "write_all succeeds only if the console never failed fatally");
            assert!(console.len == case.text.len(), "every visible byte is handed to the console exactly once");
        }
        Err(e) => {
            assert!(console.last_fatal == Some(e.kind()), "a console error reaches the caller with its kind");
            assert!(console.len <= case.text.len(), "on error at most a prefix was handed over");
        }
    }
    if console.last_fatal.is_some() {
        assert!(r.is_err(), "a fatal console outcome is never turned into success");
    }
    // what was handed over is a prefix of the visible text, in order
    let mut i = 0;
    while i < 16 {
        if i < console.len {
            assert!(console.text[i] == case.text[i], "the console receives the visible text in order, nothing duplicated or lost");
        }
        i += 1;
    }
    // every call carries the capped colours of the run its bytes belong to
    let mut pos = 0usize; // visible bytes accepted before this call
    let mut c = 0;
    while c < MAXC {
        if c < console.calls && console.offered[c] > 0 {
            // find the run containing visible byte `pos`
            let mut start = 0usize;
            let mut j = 0;
            let mut fg = 16u8;
            let mut bg = 16u8;
            let mut end = 0usize;
            while j < case.runs.len() {
                if start <= pos && pos < start + case.runs[j].0 {
                    fg = case.runs[j].1;
                    bg = case.runs[j].2;
                    end = start + case.runs[j].0;
                }
                start += case.runs[j].0;
                j += 1;
            }
            assert!(console.fg[c] == color_at(fg) && console.bg[c] == color_at(bg), "each run reaches the console with its foreground and background reduced to the 16-colour palette");
            assert!(pos + console.offered[c] <= end || end == 0, "a console call never spans two differently styled runs");
            pos += console.accepted[c];
        }
        c += 1;
    }
}

#[cfg_attr(kani, kani::proof, kani::unwind(40))]
#[cfg_attr(not(kani), test)]
fn wincon_write_all_case0() {
    write_all_case(0);
}

#[cfg_attr(kani, kani::proof, kani::unwind(40))]
#[cfg_attr(not(kani), test)]
fn wincon_write_all_case1() {
    write_all_case(1);
}

#[cfg_attr(kani, kani::proof, kani::unwind(40))]
#[cfg_attr(not(kani), test)]
fn wincon_write_all_case2() {
    write_all_case(2);
}

#[cfg_attr(kani, kani::proof, kani::unwind(40))]
#[cfg_attr(not(kani), test)]
fn wincon_write_all_case3() {
    write_all_case(3);
}

/// `write`: a buffer is reported as consumed only if all of its text was handed over
#[cfg_attr(kani, kani::proof, kani::unwind(40))]
#[cfg_attr(not(kani), test)]
fn wincon_write_reports_progress() {
    let case = &CASES[0];
    let mut console = Console::new(1);
    let mut state = WinconBytes::new();
    let r = write(&mut console, &mut state, case.input);
    assert!(!console.saw_escape, "an escape byte is never passed to the console as text");
    if let Ok(n) = r {
        assert!(n <= case.input.len(), "write reports a count no larger than the buffer");
        if n == case.input.len() {
            assert!(console.len == case.text.len(), "write reports a buffer as consumed only if all of its text was handed over");
        }
    }
    vk::vk_cover!(r.is_ok() && console.len < case.text.len(), "short console write");
}
