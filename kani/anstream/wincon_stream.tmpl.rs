//! C18 — the legacy-console stream.  `crates/anstream/src/wincon.rs` is only compiled on
//! Windows (its `impl Write` needs the Windows-only `RawStream: WinconStream` bound), so its
//! three platform-independent functions are cut *verbatim* out of the working tree by
//! tools/extract.py (rules E1, E2 only) and compiled into this module on every run.
#![allow(dead_code, unused_imports, missing_docs, unreachable_pub, clippy::all)]
use crate::adapter::WinconBytes;
use crate::verif_kani::vk;
use std::io::ErrorKind;

//@fn crates/anstream/src/wincon.rs write
//@end

//@fn crates/anstream/src/wincon.rs write_all
//@end

//@fn crates/anstream/src/wincon.rs cap_wincon_color
//@end

const MAXC: usize = 6;

/// recording console: each call may accept any prefix (also nothing) or fail
struct Console {
    calls: usize,
    fg: [Option<anstyle::AnsiColor>; MAXC],
    bg: [Option<anstyle::AnsiColor>; MAXC],
    ptr: [usize; MAXC],
    len: [usize; MAXC],
    /// 0..=len accepted, 100 = Interrupted, 101 = Other
    outcome: [usize; MAXC],
    faults_left: u8,
    /// smallest short count the console may report (0: may accept nothing)
    min_short: usize,
}

impl Console {
    fn new(faults: u8) -> Self {
        Console { calls: 0, fg: [None; MAXC], bg: [None; MAXC], ptr: [0; MAXC], len: [0; MAXC], outcome: [0; MAXC], faults_left: faults, min_short: 0 }
    }
}

impl anstyle_wincon::WinconStream for Console {
    fn write_colored(&mut self, fg: Option<anstyle::AnsiColor>, bg: Option<anstyle::AnsiColor>, data: &[u8]) -> std::io::Result<usize> {
        let i = self.calls;
        self.calls += 1;
        let mut out = data.len();
        if self.faults_left > 0 && vk::any_bool() {
            self.faults_left -= 1;
            let what = vk::any_u8_in(0, 2);
            out = if what == 0 { 100 } else if what == 1 { 101 } else { vk::any_usize_in(if self.min_short < data.len() { self.min_short } else { data.len() }, data.len()) };
        }
        if i < MAXC {
            self.fg[i] = fg;
            self.bg[i] = bg;
            self.ptr[i] = data.as_ptr() as usize;
            self.len[i] = data.len();
            self.outcome[i] = out;
        }
        if out == 100 {
            Err(ErrorKind::Interrupted.into())
        } else if out == 101 {
            Err(ErrorKind::Other.into())
        } else {
            Ok(out)
        }
    }
}

/// cap_wincon_color: 16-colour values kept, indices 0-15 mapped to the palette, everything else default
#[cfg_attr(kani, kani::proof)]
#[cfg_attr(not(kani), test)]
fn wincon_cap_color() {
    use crate::verif_kani::astyle::*;
    let c = any_acolor();
    let got = cap_wincon_color(color_of(c));
    let want = if c.tag == 0 { Some(ansi_from_index(c.a)) } else if c.tag == 1 && c.a < 16 { Some(ansi_from_index(c.a)) } else { None };
    assert!(got == want, "console colours: 16-colour kept, 256-colour indices 0-15 mapped to their palette colour, other colours fall back to the default");
    vk::vk_cover!(c.tag == 1 && c.a == 15, "index 15");
    vk::vk_cover!(c.tag == 1 && c.a == 16, "index 16");
}

use crate::adapter::verif_kani_wincon_sgr::{EXTRACT_CALLS, RUN_LEN, RUN_N, RUN_PTR, RUN_STYLE, RUN_TOTAL};

fn cap(c: Option<anstyle::Color>) -> Option<anstyle::AnsiColor> {
    match c {
        Some(anstyle::Color::Ansi(a)) => Some(a),
        Some(anstyle::Color::Ansi256(i)) if i.0 < 16 => Some(crate::verif_kani::astyle::ansi_from_index(i.0)),
        _ => None,
    }
}

/// write_all against every extractor answer (0-2 runs, arbitrary styles, 1-2 byte texts) and
/// every console script with at most one misbehaving call
#[cfg_attr(kani, kani::proof, kani::unwind(5),
    kani::stub(crate::adapter::wincon::next_bytes, crate::adapter::verif_kani_wincon_sgr::wincon_next_recorder))]
fn wincon_write_all_plumbing() {
    write_all_against_console(0);
}

/// the same with at most ONE run from the extractor (the two-run harness above does not finish in
/// CBMC: > 30 min, 10 GB; kept for a stronger back end)
#[cfg_attr(kani, kani::proof, kani::unwind(5),
    kani::stub(crate::adapter::wincon::next_bytes, crate::adapter::verif_kani_wincon_sgr::wincon_next_recorder))]
fn wincon_write_all_single_run() {
    unsafe { crate::adapter::verif_kani_wincon_sgr::RUN_LIMIT = 1; }
    write_all_against_console(0);
}

/// two runs, the console never reports a zero-length write (the WriteZero error is built with
/// `io::Error::new(kind, &str)`: String, Vec growth and a boxed trait object)
#[cfg_attr(kani, kani::proof, kani::unwind(5),
    kani::stub(crate::adapter::wincon::next_bytes, crate::adapter::verif_kani_wincon_sgr::wincon_next_recorder))]
fn wincon_write_all_nonzero() {
    write_all_against_console(1);
}

fn write_all_against_console(min_short: usize) {
    let buf = [b'x'; 3];
    let mut console = Console::new(1);
    console.min_short = min_short;
    let mut state = WinconBytes::new();
    let r = write_all(&mut console, &mut state, &buf);
    let (nruns, total) = unsafe { (RUN_N, RUN_TOTAL) };
    // walk the console calls against the runs, in order
    let mut c = 0usize;
    let mut fatal: Option<ErrorKind> = None;
    let mut done_runs = 0usize;
    let mut ri = 0;
    while ri < 2 {
        if ri < nruns && fatal.is_none() {
            let style = unsafe { RUN_STYLE[ri] }.unwrap();
            let (ptr, len) = unsafe { (RUN_PTR[ri], RUN_LEN[ri]) };
            let mut off = 0usize;
            let mut step = 0;
            // a run of <= 2 bytes with at most one misbehaving call takes at most 3 console calls
            while step < 4 {
                if off < len && fatal.is_none() {
                    assert!(c < console.calls, "every visible byte of every run is handed to the console");
                    assert!(console.fg[c] == cap(style.get_fg_color()) && console.bg[c] == cap(style.get_bg_color()),
                        "each run reaches the console with its foreground and background reduced to the 16-colour palette");
                    assert!(console.ptr[c] == ptr + off && console.len[c] == len - off, "the console is offered exactly the part of the run not yet accepted: nothing twice, nothing skipped");
                    let o = console.outcome[c];
                    if o == 100 {
                        // Interrupted: retried
                    } else if o == 101 {
                        fatal = Some(ErrorKind::Other);
                    } else if o == 0 {
                        fatal = Some(ErrorKind::WriteZero);
                    } else {
                        off += o;
                    }
                    c += 1;
                }
                step += 1;
            }
            if off == len {
                done_runs += 1;
            }
        }
        ri += 1;
    }
    assert!(c == console.calls, "the console receives nothing but the runs");
    match &r {
        Ok(()) => {
            assert!(fatal.is_none() && done_runs == nruns && nruns == total, "write_all succeeds only after every run was handed over completely");
        }
        Err(e) => {
            assert!(fatal == Some(e.kind()), "a console error (or a zero-length write) reaches the caller with its kind");
        }
    }
    if fatal.is_some() {
        assert!(r.is_err(), "a fatal console outcome is never turned into success");
    }
    vk::vk_cover!(r.is_ok() && nruns >= 1 && console.calls >= 2, "a run delivered after a retry or a short write");
    vk::vk_cover!(r.is_err(), "error path");
}

/// `write`: one console call per run; a buffer is reported as consumed only if all of its text was handed over
#[cfg_attr(kani, kani::proof, kani::unwind(8),
    kani::stub(crate::adapter::wincon::next_bytes, crate::adapter::verif_kani_wincon_sgr::wincon_next_recorder))]
fn wincon_write_reports_progress() {
    let buf = [b'x'; 3];
    let mut console = Console::new(1);
    let mut state = WinconBytes::new();
    let r = write(&mut console, &mut state, &buf);
    let nruns = unsafe { RUN_N };
    // every run that was extracted is offered to the console once, whole, with capped colours
    let mut all_accepted = true;
    let mut c = 0;
    while c < MAXC {
        if c < console.calls {
            assert!(c < nruns, "write offers each run once");
            let style = unsafe { RUN_STYLE[c] }.unwrap();
            assert!(console.fg[c] == cap(style.get_fg_color()) && console.bg[c] == cap(style.get_bg_color()),
                "each run reaches the console with its foreground and background reduced to the 16-colour palette");
            assert!(console.ptr[c] == unsafe { RUN_PTR[c] } && console.len[c] == unsafe { RUN_LEN[c] }, "write offers the whole run");
            if console.outcome[c] != console.len[c] {
                all_accepted = false;
            }
        }
        c += 1;
    }
    match &r {
        Ok(n) => {
            assert!(*n <= buf.len(), "write reports a count no larger than the buffer");
            if *n == buf.len() {
                assert!(all_accepted, "write reports a buffer as consumed only if all of its text was handed over");
            }
        }
        Err(e) => {
            assert!(console.calls >= 1 && console.outcome[console.calls - 1] >= 100 && (e.kind() == ErrorKind::Interrupted || e.kind() == ErrorKind::Other), "a console error reaches the caller");
        }
    }
    vk::vk_cover!(r.is_ok() && !all_accepted, "short console write");
}

// ---- write_all against a console that CHECKS each call as it arrives (nothing is stored at a
// symbolic position: that is what made the recording console too expensive for the nested loop) ----

/// The run the console is being fed is always the one the extractor stand-in yielded last
/// (`extract_next` is lazy).  Per call: the console must be offered exactly the not-yet-accepted
/// rest of that run, with the run's colours capped; a new run may only start when the previous
/// one was accepted completely.  Outcome per call: everything, or (at most `faults_left` times)
/// any prefix, nothing, Interrupted, Other.
struct OnlineConsole {
    calls: usize,
    faults_left: u8,
    /// number of runs yielded when the previous call arrived
    seen_runs: usize,
    /// bytes of the current run accepted so far
    off: usize,
    /// every check so far held
    ok: bool,
    fatal: Option<ErrorKind>,
    /// concrete per-call outcomes (0 all, 1 one byte, 2 Interrupted, 3 Other, 4 nothing) when `scripted`
    scripted: bool,
    script: [u8; 5],
}

impl anstyle_wincon::WinconStream for OnlineConsole {
    fn write_colored(&mut self, fg: Option<anstyle::AnsiColor>, bg: Option<anstyle::AnsiColor>, data: &[u8]) -> std::io::Result<usize> {
        self.calls += 1;
        let n = unsafe { RUN_N };
        if n == 0 || n > 2 || self.fatal.is_some() {
            // a call without a run, or after a fatal outcome was handed to write_all
            self.ok = false;
            return Ok(data.len());
        }
        if n != self.seen_runs {
            // a new run starts: the previous one must have been accepted completely
            if self.seen_runs > 0 && self.off != unsafe { RUN_LEN[self.seen_runs - 1] } {
                self.ok = false;
            }
            if n != self.seen_runs + 1 {
                self.ok = false;
            }
            self.seen_runs = n;
            self.off = 0;
        }
        let (ptr, len, style) = unsafe { (RUN_PTR[n - 1], RUN_LEN[n - 1], RUN_STYLE[n - 1]) };
        let style = match style { Some(s) => s, None => { self.ok = false; return Ok(data.len()); } };
        if data.as_ptr() as usize != ptr + self.off || data.len() != len - self.off || data.is_empty() {
            self.ok = false;
        }
        if fg != cap(style.get_fg_color()) || bg != cap(style.get_bg_color()) {
            self.ok = false;
        }
        if self.scripted {
            let code = if self.calls <= 5 { self.script[self.calls - 1] } else { 0 };
            if code == 2 {
                return Err(ErrorKind::Interrupted.into());
            } else if code == 3 {
                self.fatal = Some(ErrorKind::Other);
                return Err(ErrorKind::Other.into());
            } else if code == 4 {
                self.fatal = Some(ErrorKind::WriteZero);
                return Ok(0);
            } else if code == 1 && data.len() > 1 {
                self.off += 1;
                return Ok(1);
            }
            self.off += data.len();
            return Ok(data.len());
        }
        if self.faults_left > 0 && vk::any_bool() {
            self.faults_left -= 1;
            let what = vk::any_u8_in(0, 2);
            if what == 0 {
                return Err(ErrorKind::Interrupted.into());
            } else if what == 1 {
                self.fatal = Some(ErrorKind::Other);
                return Err(ErrorKind::Other.into());
            }
            let k = vk::any_usize_in(0, data.len());
            if k == 0 {
                self.fatal = Some(ErrorKind::WriteZero);
            }
            self.off += k;
            return Ok(k);
        }
        self.off += data.len();
        Ok(data.len())
    }
}

fn write_all_online(faults: u8) {
    let (ok, nruns, calls) = write_all_online_with(faults, None);
    vk::vk_cover!(ok && nruns == 2 && calls >= 3, "two runs with a retry or a short write");
    vk::vk_cover!(!ok, "error path");
}

/// returns (write_all succeeded, runs yielded, console calls)
fn write_all_online_with(faults: u8, script: Option<[u8; 5]>) -> (bool, usize, usize) {
    let buf = [b'x'; 3];
    let mut console = OnlineConsole { calls: 0, faults_left: faults, seen_runs: 0, off: 0, ok: true, fatal: None, scripted: script.is_some(), script: script.unwrap_or([0; 5]) };
    let mut state = WinconBytes::new();
    let r = write_all(&mut console, &mut state, &buf);
    let (nruns, total) = unsafe { (RUN_N, RUN_TOTAL) };
    assert!(console.ok, "each run reaches the console with its colours reduced to the 16-colour palette, and the console is offered exactly the part of the current run not yet accepted: nothing twice, nothing skipped, no new run before the previous one is complete");
    match &r {
        Ok(()) => {
            assert!(console.fatal.is_none() && nruns == total && console.seen_runs == nruns, "write_all succeeds only after every run was handed over");
            if nruns > 0 {
                assert!(console.off == unsafe { RUN_LEN[nruns - 1] }, "write_all succeeds only after the last run was accepted completely");
            }
        }
        Err(e) => {
            assert!(console.fatal == Some(e.kind()), "a console error (or a zero-length write) reaches the caller with its kind");
        }
    }
    if console.fatal.is_some() {
        assert!(r.is_err(), "a fatal console outcome is never turned into success");
    }
    (r.is_ok(), nruns, console.calls)
}

/// every extractor answer (0-2 runs, arbitrary colours, 1-2 byte texts) x every console script
/// with at most one misbehaving call
#[cfg_attr(kani, kani::proof, kani::unwind(5),
    kani::stub(crate::adapter::wincon::next_bytes, crate::adapter::verif_kani_wincon_sgr::wincon_next_recorder))]
fn wincon_write_all_online() {
    write_all_online(1);
}

// ---- write_all with CONCRETE extractor answers and console scripts (bounded sample): the number
// of runs, the text lengths and every console outcome are constants, only the colours are symbolic,
// so CBMC decides each case by propagation.  This is the bounded stand-in for the symbolic
// harnesses above, which do not finish.

fn write_all_scripted(runs: usize, two_bytes: bool, script: [u8; 5], want_ok: bool, want_calls: usize) {
    unsafe {
        crate::adapter::verif_kani_wincon_sgr::RUN_FORCE_TOTAL = Some(runs);
        crate::adapter::verif_kani_wincon_sgr::RUN_FORCE_TWO = Some(two_bytes);
    }
    let (ok, nruns, calls) = write_all_online_with(0, Some(script));
    assert!(ok == want_ok && calls == want_calls, "scripted console: write_all makes exactly the calls the script needs and succeeds exactly when no fatal outcome was scripted");
    vk::vk_cover!(nruns <= runs, "scripted case runs to the end");
}

macro_rules! scripted {
    ($name:ident, $runs:expr, $two:expr, $script:expr, $ok:expr, $calls:expr) => {
        #[cfg_attr(kani, kani::proof, kani::unwind(8),
            kani::stub(crate::adapter::wincon::next_bytes, crate::adapter::verif_kani_wincon_sgr::wincon_next_recorder))]
        fn $name() {
            write_all_scripted($runs, $two, $script, $ok, $calls);
        }
    };
}

// no run; one run accepted at once; two runs accepted at once
scripted!(wincon_write_all_s_none, 0, true, [0, 0, 0, 0, 0], true, 0);
scripted!(wincon_write_all_s_two_plain, 2, true, [0, 0, 0, 0, 0], true, 2);
// short write on the first run, then the rest; second run after an Interrupted
scripted!(wincon_write_all_s_short_then_rest, 2, true, [1, 0, 2, 0, 0], true, 4);
// short writes on both runs
scripted!(wincon_write_all_s_short_both, 2, true, [1, 0, 1, 0, 0], true, 4);
// Interrupted twice before anything is accepted, then a short write
scripted!(wincon_write_all_s_interrupted_twice, 1, true, [2, 2, 1, 0, 0], true, 4);
// a fatal error on the second run
scripted!(wincon_write_all_s_error_second, 2, true, [0, 3, 0, 0, 0], false, 2);
// a fatal error after a short write
scripted!(wincon_write_all_s_error_after_short, 1, true, [1, 3, 0, 0, 0], false, 2);
// zero-length write after a short write
scripted!(wincon_write_all_s_zero_after_short, 1, true, [1, 4, 0, 0, 0], false, 2);
// zero-length write at once
scripted!(wincon_write_all_s_zero_first, 2, false, [4, 0, 0, 0, 0], false, 1);
