//! child of `adapter::strip` (appended `mod` line in the scratch copy): C01 / C03 / C04
//! leaf obligations of the Verus unit `strip_scan` and its bounded Kani twins.
#![allow(dead_code, unused_imports, missing_docs, unreachable_pub, clippy::all)]
use super::*;
use crate::verif_kani::spec_strip::*;
use crate::verif_kani::spec_vt::*;
use crate::verif_kani::util::*;
use crate::verif_kani::vk;

/// E7 leaves: the predicates the Verus unit takes by contract — all 16 x 256 / 256 inputs (complete)
#[cfg_attr(kani, kani::proof)]
#[cfg_attr(not(kani), test)]
fn strip_leaf_predicates() {
    let b = vk::any_u8();
    let a = action_of(vk::any_u8_in(0, 15));
    let want = (a == Action::Print && b != 0x7f) || a == Action::BeginUtf8 || (a == Action::Execute && sp_ascii_whitespace(b));
    assert!(is_printable_bytes(a, b) == want, "is_printable_bytes: Print except DEL, BeginUtf8, Execute of ASCII whitespace");
    assert!(is_utf8_continuation(b) == sp_is_cont(b), "is_utf8_continuation: 0x80..=0xBF");
    assert!(b.is_ascii_whitespace() == sp_ascii_whitespace(b), "u8::is_ascii_whitespace: TAB LF FF CR SPACE");
    // property level: on every (state, byte) of the table the predicate is the S3 one
    let s = any_state();
    let (ns, act) = state_change(s, b);
    assert!((ns, act) == vt(s, b), "state_change equals S1 (as used by the strip adapter)");
    assert!(is_printable_bytes(act, b) == sp_printable(act, b), "printability of a table action equals S3");
    vk::vk_cover!(a == Action::Execute && b == 0x20, "Execute/space corner");
}

/// E7 leaf: Utf8Parser::add is trace-equivalent to the S5 accumulator.
/// Four symbolic bytes from the default state; the model is back at ground after at
/// most four bytes and then the real parser equals `default()`, so equivalence on
/// four-byte traces is equivalence on all streams (complete).
#[cfg_attr(kani, kani::proof, kani::unwind(6))]
#[cfg_attr(not(kani), test)]
fn strip_utf8_add_eq_s5() {
    let mut p = Utf8Parser::default();
    let mut u: u8 = 0;
    let mut i = 0;
    while i < 4 {
        let b = vk::any_u8();
        let got = p.add(b);
        let want = u8_feed(u, b);
        assert!(got == want.1, "Utf8Parser::add reports a finished character exactly when S5 does");
        u = want.0;
        if u == 0 {
            assert!(p == Utf8Parser::default(), "Utf8Parser is back at its default state whenever S5 is at ground");
        }
        i += 1;
    }
    assert!(u == 0 || i == 4, "S5 trace ended");
    vk::vk_cover!(u == 0 && i == 4, "a four-byte character completes");
}

/// S5 returns to ground within four bytes from ground (closes the induction above)
#[cfg_attr(kani, kani::proof)]
#[cfg_attr(not(kani), test)]
fn strip_s5_bounded_depth() {
    let b0 = vk::any_u8();
    let b1 = vk::any_u8();
    let b2 = vk::any_u8();
    let b3 = vk::any_u8();
    let u1 = u8_feed(0, b0);
    let u2 = u8_feed(u1.0, b1);
    let u3 = u8_feed(u2.0, b2);
    let u4 = u8_feed(u3.0, b3);
    assert!(u1.0 == 0 || u2.0 == 0 || u3.0 == 0 || u4.0 == 0, "S5 is back at ground after at most four bytes");
    assert!(u1.0 <= 7 && u2.0 <= 7 && u3.0 <= 7, "S5 states are 0..=7");
}

/// a symbolic well-formed carried state (state, real accumulator, abstract accumulator)
fn any_carried() -> (State, Utf8Parser, u8) {
    let s = any_state();
    let mut p = Utf8Parser::default();
    let mut u = 0u8;
    if s == State::Utf8 {
        // inside a character: a lead byte and up to two continuation bytes that do not finish it
        let lead = vk::any_u8();
        vk::assume(u8_lead(lead) != 0);
        let _ = p.add(lead);
        u = u8_lead(lead);
        let extra = vk::any_u8_in(0, 2);
        let mut i = 0;
        while i < 2 {
            if i < extra {
                let c = vk::any_u8();
                let f = u8_feed(u, c);
                vk::assume(!f.1);
                let _ = p.add(c);
                u = f.0;
            }
            i += 1;
        }
    }
    (s, p, u)
}

/// bounded twin of verus:strip_scan::next_bytes — one call, any carried state, input <= N bytes
fn next_bytes_onecall<const N: usize>() {
    let (s0, mut p, u0) = any_carried();
    let mut buf = [0u8; N];
    let mut i = 0;
    while i < N {
        buf[i] = vk::any_u8();
        i += 1;
    }
    let len = vk::any_usize_in(0, N);
    let input = &buf[..len];
    let (k, n, fs, fu) = model_scan(s0, u0, &buf, len);

    let mut bytes: &[u8] = input;
    let mut state = s0;
    let r = next_bytes(&mut bytes, &mut state, &mut p);
    match r {
        Some(piece) => {
            assert!(n > 0, "next_bytes returns a piece only if the model has a visible byte");
            assert!(piece.len() == n && piece.as_ptr() == input[k..].as_ptr(), "the piece is exactly the next maximal run of visible bytes, as a sub-slice of the input");
        }
        None => {
            assert!(n == 0 && k == len, "next_bytes returns None only when the input holds no further visible byte");
        }
    }
    assert!(bytes.len() == len - (k + n) && bytes.as_ptr() == input[k + n..].as_ptr(), "the rest starts right after the piece");
    assert!(state == fs, "carried parser state equals the model state at the cut");
    // the accumulator is observed through its behaviour on three more bytes
    let mut u = fu;
    let mut j = 0;
    while j < 3 {
        let c = vk::any_u8();
        let got = p.add(c);
        let want = u8_feed(u, c);
        assert!(got == want.1, "carried UTF-8 accumulator behaves like the model accumulator at the cut");
        u = want.0;
        j += 1;
    }
    vk::vk_cover!(s0 == State::Utf8 && n > 0, "resumes inside a character");
    vk::vk_cover!(s0 == State::CsiParam && k > 0 && n > 0, "leaves a sequence and finds text");
    vk::vk_cover!(r.is_none() && len > 0, "nothing visible");
}

#[cfg_attr(kani, kani::proof, kani::unwind(5))]
#[cfg_attr(not(kani), test)]
fn strip_next_bytes_onecall_n3() {
    next_bytes_onecall::<3>();
}

#[cfg_attr(kani, kani::proof, kani::unwind(7))]
#[cfg_attr(not(kani), test)]
fn strip_next_bytes_onecall_n5() {
    next_bytes_onecall::<5>();
}

/// bounded twin of verus:strip_scan::next_str plus the C04 obligation of the unsafe
/// from_utf8_unchecked: every piece is valid UTF-8 lying inside the input.
fn next_str_onecall<const N: usize>() {
    let s0 = any_text_state();
    let mut buf = [0u8; N];
    let mut i = 0;
    while i < N {
        buf[i] = vk::any_u8();
        i += 1;
    }
    let len = vk::any_usize_in(0, N);
    let input = &buf[..len];
    vk::assume(core::str::from_utf8(input).is_ok());
    let (k, n, fs) = model_scan_str(s0, &buf, len);

    let mut bytes: &[u8] = input;
    let mut state = s0;
    // debug_assertions are on: from_utf8_unchecked validates and would panic (caught as a failure)
    let r = next_str(&mut bytes, &mut state);
    match r {
        Some(piece) => {
            assert!(n > 0, "next_str returns a piece only if the model has a visible byte");
            assert!(piece.len() == n && piece.as_ptr() == input[k..].as_ptr(), "the text piece is exactly the next maximal run of visible bytes, inside the input");
            assert!(core::str::from_utf8(&input[k..k + n]).is_ok(), "the text piece is valid UTF-8");
        }
        None => {
            assert!(n == 0 && k == len, "next_str returns None only when the input holds no further visible byte");
        }
    }
    assert!(bytes.len() == len - (k + n) && bytes.as_ptr() == input[k + n..].as_ptr(), "the rest starts right after the piece");
    assert!(state == fs, "carried parser state equals the text model state at the cut");
    vk::vk_cover!(s0 != State::Ground && n > 0, "whitespace inside a sequence");
    vk::vk_cover!(n == 3, "a three-byte piece");
}

#[cfg_attr(kani, kani::proof, kani::unwind(5))]
#[cfg_attr(not(kani), test)]
fn strip_next_str_onecall_n3() {
    next_str_onecall::<3>();
}

#[cfg_attr(kani, kani::proof, kani::unwind(6))]
#[cfg_attr(not(kani), test)]
fn strip_next_str_onecall_n4() {
    next_str_onecall::<4>();
}

// ---- the callee's contract as an executable stand-in (modular verification of callers) ----

/// canonical accumulator for an abstract S5 state (built through the real `add`)
pub(crate) fn canon_utf8(u: u8) -> Utf8Parser {
    let mut p = Utf8Parser::default();
    match u {
        1 => { let _ = p.add(0xc2); }
        2 => { let _ = p.add(0xe1); }
        3 => { let _ = p.add(0xf1); }
        4 => { let _ = p.add(0xe0); }
        5 => { let _ = p.add(0xed); }
        6 => { let _ = p.add(0xf0); }
        7 => { let _ = p.add(0xf4); }
        _ => {}
    }
    p
}

pub(crate) fn abstract_utf8(p: &Utf8Parser) -> u8 {
    let mut u = 1u8;
    while u <= 7 {
        if *p == canon_utf8(u) {
            return u;
        }
        u += 1;
    }
    0
}

/// `next_bytes` replaced by its contract (verus:strip_scan::next_bytes, scan_post): same
/// signature, result computed from the S3 model.  Used with #[kani::stub] so that callers
/// are verified against the callee's contract, not its body.
/// Restricted to inputs without UTF-8 lead bytes (the harness alphabets guarantee it): the
/// carried state then never is Utf8 and the accumulator stays untouched at ground.
pub(crate) fn next_bytes_contract<'s>(
    bytes: &mut &'s [u8],
    state: &mut State,
    _utf8parser: &mut Utf8Parser,
) -> Option<&'s [u8]> {
    let all: &'s [u8] = *bytes;
    let (k, n, fs, fu) = model_scan(*state, 0, all, all.len());
    assert!(fs != State::Utf8 && fu == 0, "harness alphabet holds no UTF-8 lead byte");
    let (_, rest) = all.split_at(k);
    let (piece, rest) = rest.split_at(n);
    *bytes = rest;
    *state = fs;
    if n == 0 {
        None
    } else {
        Some(piece)
    }
}

pub(crate) fn strip_bytes_with(state: State, u: u8) -> StripBytes {
    StripBytes { state, utf8parser: canon_utf8(u) }
}

pub(crate) fn strip_bytes_parts(s: &StripBytes) -> (State, bool) {
    (s.state, s.utf8parser == Utf8Parser::default())
}

// ---- recording stand-in for `next_bytes`: the scanner as an *uninterpreted* contract ----
//
// Callers (`strip::write`, `write_all`) never inspect bytes; they only route slices and states.
// This stand-in has the signature of `next_bytes`, returns an arbitrary result of the *shape*
// guaranteed by verus:strip_scan::next_bytes (scan_post: a sub-slice `old[k..k+n]`, n >= 1,
// rest `old[k+n..]`, or None with the input exhausted) and an arbitrary new state, and records
// what it was called with.  The harness then checks the caller's plumbing against the record.

pub(crate) const REC_MAX: usize = 8;

#[derive(Copy, Clone)]
pub(crate) struct ScanCall {
    pub(crate) in_ptr: usize,
    pub(crate) in_len: usize,
    pub(crate) in_state: State,
    pub(crate) k: usize,
    pub(crate) n: usize,
    pub(crate) out_state: State,
}

pub(crate) static mut REC: [ScanCall; REC_MAX] = [ScanCall { in_ptr: 0, in_len: 0, in_state: State::Ground, k: 0, n: 0, out_state: State::Ground }; REC_MAX];
pub(crate) static mut REC_N: usize = 0;

pub(crate) fn next_bytes_recorder<'s>(
    bytes: &mut &'s [u8],
    state: &mut State,
    _utf8parser: &mut Utf8Parser,
) -> Option<&'s [u8]> {
    let all: &'s [u8] = *bytes;
    let len = all.len();
    let k = vk::any_usize_in(0, len);
    let n = vk::any_usize_in(0, len - k);
    // scan_post shape: a piece is non-empty; nothing returned means the input is exhausted
    vk::assume(if n == 0 { k == len } else { true });
    let out_state = state_of(vk::any_u8_in(1, 15));
    unsafe {
        if REC_N < REC_MAX {
            REC[REC_N] = ScanCall { in_ptr: all.as_ptr() as usize, in_len: len, in_state: *state, k, n, out_state };
        }
        REC_N += 1;
    }
    let (_, rest) = all.split_at(k);
    let (piece, rest) = rest.split_at(n);
    *bytes = rest;
    *state = out_state;
    if n == 0 {
        None
    } else {
        Some(piece)
    }
}

pub(crate) fn strip_bytes_state(s: &StripBytes) -> State {
    s.state
}

pub(crate) fn strip_bytes_in_state(s: State) -> StripBytes {
    StripBytes { state: s, utf8parser: Utf8Parser::default() }
}
