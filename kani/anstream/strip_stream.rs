//! child of `strip` (appended `mod` line in the scratch copy): C06 — the Write contract of
//! the strip stream under every pattern of short writes and errors of the inner writer.
#![allow(dead_code, unused_imports, missing_docs, unreachable_pub, clippy::all)]
use super::*;
use crate::stream::verif_kani_mock::{Mock, CAP};
use crate::verif_kani::spec_strip::*;
use crate::verif_kani::spec_vt::*;
use crate::verif_kani::util::*;
use crate::verif_kani::vk;
use anstyle_parse::state::State;
use std::io::Write as _;

/// S3 fold: visible bytes of `b[..len]` from (s0, u0) into `out`; returns (count, state, accumulator)
fn visible(s0: State, u0: u8, b: &[u8], len: usize, out: &mut [u8; CAP]) -> (usize, State, u8) {
    let mut s = s0;
    let mut u = u0;
    let mut n = 0;
    let mut i = 0;
    while i < len {
        let t = strip_step(s, u, b[i]);
        if t.2 {
            out[n] = b[i];
            n += 1;
        }
        s = t.0;
        u = t.1;
        i += 1;
    }
    (n, s, u)
}

fn log_is(m: &Mock, want: &[u8; CAP], n: usize) -> bool {
    if m.len != n || m.overflow {
        return false;
    }
    let mut i = 0;
    while i < CAP {
        if i < n && m.log[i] != want[i] {
            return false;
        }
        i += 1;
    }
    true
}

fn any_buf<const N: usize>() -> ([u8; N], usize) {
    let mut buf = [0u8; N];
    let mut i = 0;
    while i < N {
        buf[i] = vk::any_u8();
        i += 1;
    }
    (buf, vk::any_usize_in(0, N))
}

/// one `write` call from the initial state, any script (<= 2 misbehaving inner calls), buffer <= N
fn write_onecall<const N: usize>() {
    let (buf, len) = any_buf::<N>();
    let input = &buf[..len];
    let mut stream = StripStream::new(Mock::new(2));
    let r = stream.write(input);
    let locks = stream.raw.locks;
    let strip_state = stream.state.clone();
    let mock = stream.into_inner();
    match &r {
        Ok(n) => {
            let n = *n;
            assert!(n <= len, "write reports a count no larger than the buffer");
            // exactly the visible bytes of the consumed prefix were delivered
            let mut want = [0u8; CAP];
            let (cnt, _, _) = visible(State::Ground, 0, &buf, n, &mut want);
            assert!(log_is(&mock, &want, cnt), "write delivered exactly the visible bytes of the prefix it reports as consumed");
            // and the carried state is the state after that prefix: the resubmitted tail is stripped as in one pass
            let mut a = strip_state;
            let mut b = StripBytes::new();
            b.strip_next(&buf[..n]).last();
            let mut out_a = [0u8; CAP];
            let mut na = 0;
            for p in a.strip_next(&buf[n..len]) {
                for x in p {
                    out_a[na] = *x;
                    na += 1;
                }
            }
            let mut out_b = [0u8; CAP];
            let mut nb = 0;
            for p in b.strip_next(&buf[n..len]) {
                for x in p {
                    out_b[nb] = *x;
                    nb += 1;
                }
            }
            assert!(na == nb && out_a == out_b, "after write the unconsumed tail is stripped exactly as after a fresh pass over the consumed prefix");
        }
        Err(e) => {
            assert!(mock.last_err == Some(e.kind()), "an inner error surfaces from write with its kind intact");
            assert!(mock.len == 0, "a write call that fails has delivered nothing");
            assert!(strip_state == StripBytes::new(), "a write call that fails leaves the strip state untouched (retry is safe)");
        }
    }
    if mock.last_err.is_some() && mock.calls == 1 {
        assert!(r.is_err(), "an inner error is never turned into success");
    }
    assert!(locks == 1, "write acquires the inner lock exactly once");
    vk::vk_cover!(r.is_err(), "error path");
    vk::vk_cover!(matches!(&r, Ok(n) if *n < len && *n > 0), "partial progress");
    vk::vk_cover!(matches!(&r, Ok(n) if *n == len && len == N), "whole buffer");
}

#[cfg_attr(kani, kani::proof, kani::unwind(6))]
#[cfg_attr(not(kani), test)]
fn stream_write_onecall_n3() {
    write_onecall::<3>();
}

#[cfg_attr(kani, kani::proof, kani::unwind(7))]
#[cfg_attr(not(kani), test)]
fn stream_write_onecall_n4() {
    write_onecall::<4>();
}

/// the standard protocol (resubmit the tail, retry after Interrupted) delivers exactly the stripped input
fn write_protocol<const N: usize>() {
    let (buf, len) = any_buf::<N>();
    let mut stream = StripStream::new(Mock::new(2));
    let mut pos = 0;
    let mut rounds = 0;
    let mut fatal = false;
    // every round either consumes >= 1 byte or burns one of the 2 faults: N + 3 rounds suffice
    while pos < len && rounds < N + 3 {
        match stream.write(&buf[pos..len]) {
            Ok(0) => {
                fatal = true; // WriteZero for the caller
                break;
            }
            Ok(n) => {
                assert!(n <= len - pos, "write reports a count no larger than the buffer");
                pos += n;
            }
            Err(e) if e.kind() == std::io::ErrorKind::Interrupted => {}
            Err(_) => {
                fatal = true;
                break;
            }
        }
        rounds += 1;
    }
    let mock = stream.into_inner();
    let mut want = [0u8; CAP];
    let (cnt, _, _) = visible(State::Ground, 0, &buf, pos, &mut want);
    assert!(log_is(&mock, &want, cnt), "the protocol delivered exactly the stripped form of what was consumed: nothing lost, duplicated, reordered or leaked");
    if !fatal {
        assert!(pos == len, "the protocol terminates with the whole input consumed");
    }
    vk::vk_cover!(!fatal && pos == len && mock.calls >= 3, "several rounds");
}

#[cfg_attr(kani, kani::proof, kani::unwind(8))]
#[cfg_attr(not(kani), test)]
fn stream_write_protocol_n3() {
    write_protocol::<3>();
}

/// write_all: Ok => everything delivered; Err => the inner kind, and only a prefix delivered
fn write_all_contract<const N: usize>() {
    let (buf, len) = any_buf::<N>();
    let mut stream = StripStream::new(Mock::new(2));
    let r = stream.write_all(&buf[..len]);
    let locks = stream.raw.locks;
    let mock = stream.into_inner();
    let mut want = [0u8; CAP];
    let (cnt, _, _) = visible(State::Ground, 0, &buf, len, &mut want);
    match &r {
        Ok(()) => {
            assert!(log_is(&mock, &want, cnt), "write_all delivered exactly the stripped form of the buffer");
        }
        Err(e) => {
            assert!(mock.last_fatal == Some(e.kind()), "an inner error surfaces from write_all with its kind intact");
            assert!(mock.len <= cnt, "on error write_all delivered at most a prefix");
            let mut i = 0;
            while i < CAP {
                if i < mock.len {
                    assert!(mock.log[i] == want[i], "on error write_all delivered a prefix of the stripped form");
                }
                i += 1;
            }
        }
    }
    if mock.last_fatal.is_some() {
        assert!(r.is_err(), "a fatal inner outcome is never turned into success by write_all");
    }
    assert!(locks == 1, "write_all acquires the inner lock exactly once");
    vk::vk_cover!(r.is_err(), "error path");
    vk::vk_cover!(r.is_ok() && mock.calls >= 2, "several inner calls");
}

#[cfg_attr(kani, kani::proof, kani::unwind(8))]
#[cfg_attr(not(kani), test)]
fn stream_write_all_n3() {
    write_all_contract::<3>();
}

/// write_vectored == write of the first non-empty buffer; flush forwards
#[cfg_attr(kani, kani::proof, kani::unwind(6))]
#[cfg_attr(not(kani), test)]
fn stream_write_vectored_n2() {
    let (b1, l1) = any_buf::<2>();
    let (b2, l2) = any_buf::<2>();
    let mut stream = StripStream::new(Mock::new(0));
    let bufs = [std::io::IoSlice::new(&b1[..l1]), std::io::IoSlice::new(&b2[..l2])];
    let r = stream.write_vectored(&bufs);
    let _ = stream.flush();
    let mock = stream.into_inner();
    let first: (&[u8; 2], usize) = if l1 > 0 { (&b1, l1) } else { (&b2, l2) };
    let mut reference = StripStream::new(Mock::new(0));
    let rr = reference.write(&first.0[..first.1]);
    let rmock = reference.into_inner();
    assert!(r.is_ok() && rr.is_ok() && r.unwrap() == rr.unwrap(), "write_vectored reports what write of the first non-empty buffer reports");
    assert!(mock.len == rmock.len && mock.log == rmock.log, "write_vectored delivers what write of the first non-empty buffer delivers");
    assert!(mock.flushes == 1, "flush reaches the inner writer");
}

/// formatted writes: every fragment stripped and delivered, inner errors surface with their kind
#[cfg_attr(kani, kani::proof, kani::unwind(8))]
#[cfg_attr(not(kani), test)]
fn stream_write_fmt_two_fragments() {
    let (b1, _) = any_buf::<2>();
    let (b2, _) = any_buf::<2>();
    vk::assume(b1[0] < 0x80 && b1[1] < 0x80 && b2[0] < 0x80 && b2[1] < 0x80);
    let s1 = core::str::from_utf8(&b1).unwrap();
    let s2 = core::str::from_utf8(&b2).unwrap();
    let mut stream = StripStream::new(Mock::new(1));
    let r = stream.write_fmt(format_args!("{}{}", s1, s2));
    let locks = stream.raw.locks;
    let mock = stream.into_inner();
    let all = [b1[0], b1[1], b2[0], b2[1]];
    let mut want = [0u8; CAP];
    let (cnt, _, _) = visible(State::Ground, 0, &all, 4, &mut want);
    match &r {
        Ok(()) => assert!(log_is(&mock, &want, cnt), "write_fmt delivered exactly the stripped form of all fragments"),
        Err(e) => assert!(mock.last_fatal == Some(e.kind()), "an inner error surfaces from write_fmt with its kind intact"),
    }
    if mock.last_fatal.is_some() {
        assert!(r.is_err(), "a fatal inner outcome is never turned into success by write_fmt");
    }
    assert!(locks == 1, "write_fmt acquires the inner lock exactly once for all fragments");
    vk::vk_cover!(r.is_err(), "error path");
}
