//! child of `strip` (appended `mod` line in the scratch copy): C06 — the Write contract of
//! the strip stream under every pattern of short writes and errors of the inner writer.
//!
//! Modular: `next_bytes` is replaced (#[kani::stub]) by a recording stand-in that returns an
//! arbitrary result of the shape its verified contract guarantees (verus:strip_scan::next_bytes).
//! `write`, `write_all`, `write_fmt` never look at byte values, so what is verified here — for
//! every buffer length up to N, every carried state, every scanner answer and every inner-writer
//! outcome — is their routing of slices, counts, states and errors.  That the routed pieces are
//! the *visible* bytes and the routed states the *model* states is the scanner's contract.
#![allow(dead_code, unused_imports, missing_docs, unreachable_pub, clippy::all, static_mut_refs)]
use super::*;
use crate::adapter::verif_kani_strip_scan::{strip_bytes_in_state, strip_bytes_state, ScanCall, REC, REC_MAX, REC_N};
use crate::verif_kani::util::*;
use crate::verif_kani::vk;
use anstyle_parse::state::State;
use std::io::ErrorKind;
use std::io::Write as _;

/// the inner writer, recording: one nondeterministic outcome per call
struct RecWriter {
    calls: usize,
    /// (ptr, len) of the slice handed to each call
    args: [(usize, usize); 4],
    /// Some(k): accepted k bytes; None: failed with `kind`
    outcomes: [Option<usize>; 4],
    kind: ErrorKind,
}

impl RecWriter {
    fn new(kind: ErrorKind) -> Self {
        RecWriter { calls: 0, args: [(0, 0); 4], outcomes: [None; 4], kind }
    }
}

impl std::io::Write for RecWriter {
    fn write(&mut self, buf: &[u8]) -> std::io::Result<usize> {
        let i = self.calls;
        self.calls += 1;
        if i < 4 {
            self.args[i] = (buf.as_ptr() as usize, buf.len());
        }
        if vk::any_bool() {
            if i < 4 {
                self.outcomes[i] = None;
            }
            return Err(self.kind.into());
        }
        let k = vk::any_usize_in(0, buf.len());
        if i < 4 {
            self.outcomes[i] = Some(k);
        }
        Ok(k)
    }
    fn flush(&mut self) -> std::io::Result<()> {
        Ok(())
    }
}

fn rec(i: usize) -> ScanCall {
    unsafe { REC[i] }
}

fn rec_n() -> usize {
    unsafe { REC_N }
}

/// one call of the private `write` — all buffer lengths <= N, all carried states, all scanner
/// answers, all inner outcomes (one harness per error kind: io::Error is costly in CBMC)
fn write_plumbing<const N: usize>(kind: ErrorKind) {
    let buf = [0u8; N];
    let len = vk::any_usize_in(0, N);
    let input = &buf[..len];
    let base = input.as_ptr() as usize;
    let entry = any_state();
    let mut st = strip_bytes_in_state(entry);
    let mut w = RecWriter::new(kind);
    let r = write(&mut w, &mut st, input);
    let fin = strip_bytes_state(&st);

    assert!(rec_n() >= 1, "write scans the buffer");
    let c0 = rec(0);
    assert!(c0.in_ptr == base && c0.in_len == len && c0.in_state == entry, "write scans the whole buffer from the carried state");
    if c0.n == 0 {
        // nothing visible in the buffer
        assert!(w.calls == 0, "write hands nothing to the inner writer when the buffer holds no visible byte");
        assert!(matches!(r, Ok(n) if n == len), "write consumes a buffer without visible bytes entirely");
        assert!(fin == c0.out_state && rec_n() == 1, "write keeps the scanner's state");
    } else {
        assert!(w.calls == 1, "write makes exactly one inner write per call");
        assert!(w.args[0] == (base + c0.k, c0.n), "write hands exactly the next visible run to the inner writer");
        match w.outcomes[0] {
            Some(k) if k == c0.n => {
                assert!(matches!(r, Ok(n) if n == c0.k + c0.n), "write reports the bytes up to the end of the delivered run");
                assert!(fin == c0.out_state && rec_n() == 1, "write keeps the scanner's state after a full inner write");
            }
            Some(k) => {
                let off = c0.k + k;
                assert!(matches!(r, Ok(n) if n == off), "after a short inner write, write reports exactly the bytes up to the last accepted one");
                assert!(off <= len, "write reports a count no larger than the buffer");
                assert!(rec_n() >= 2, "after a short inner write the state is replayed");
                let c1 = rec(1);
                assert!(c1.in_ptr == base && c1.in_len == off && c1.in_state == entry, "the replay scans exactly the consumed prefix from the entry state");
                // the replay runs the scanner to exhaustion
                let last = rec(rec_n() - 1);
                assert!(last.in_ptr + last.k + last.n == base + off, "the replay exhausts the consumed prefix");
                assert!(fin == last.out_state, "write carries the state the replay ended in");
                let mut j = 2;
                while j < REC_MAX {
                    if j < rec_n() {
                        let p = rec(j - 1);
                        let c = rec(j);
                        assert!(c.in_ptr == p.in_ptr + p.k + p.n && c.in_len == p.in_len - p.k - p.n && c.in_state == p.out_state, "the replay continues where the previous scan stopped");
                    }
                    j += 1;
                }
            }
            None => {
                assert!(matches!(&r, Err(e) if e.kind() == kind), "an inner error surfaces from write with its kind intact");
                assert!(fin == entry && rec_n() == 1, "a failed write restores the entry state and delivers nothing more (retry is safe)");
            }
        }
    }
    if w.calls >= 1 && w.outcomes[0].is_none() {
        assert!(r.is_err(), "an inner error is never turned into success");
    }
    vk::vk_cover!(w.calls == 1 && matches!(w.outcomes[0], Some(k) if k < c0.n && k > 0), "short write inside a run");
    vk::vk_cover!(r.is_err(), "error path");
    vk::vk_cover!(c0.n == 0 && len > 0, "nothing visible");
}

#[cfg_attr(kani, kani::proof, kani::unwind(7), kani::stub(crate::adapter::strip::next_bytes, crate::adapter::verif_kani_strip_scan::next_bytes_recorder))]
#[cfg_attr(not(kani), test)]
fn stream_write_plumbing_interrupted() {
    write_plumbing::<4>(ErrorKind::Interrupted);
}

#[cfg_attr(kani, kani::proof, kani::unwind(7), kani::stub(crate::adapter::strip::next_bytes, crate::adapter::verif_kani_strip_scan::next_bytes_recorder))]
#[cfg_attr(not(kani), test)]
fn stream_write_plumbing_wouldblock() {
    write_plumbing::<4>(ErrorKind::WouldBlock);
}

#[cfg_attr(kani, kani::proof, kani::unwind(7), kani::stub(crate::adapter::strip::next_bytes, crate::adapter::verif_kani_strip_scan::next_bytes_recorder))]
#[cfg_attr(not(kani), test)]
fn stream_write_plumbing_other() {
    write_plumbing::<4>(ErrorKind::Other);
}

/// an inner writer for write_all: records the slices it is given; fails at a nondeterministic call
struct AllWriter {
    calls: usize,
    args: [(usize, usize); 6],
    fail_at: usize,
    kind: ErrorKind,
}

impl std::io::Write for AllWriter {
    fn write(&mut self, buf: &[u8]) -> std::io::Result<usize> {
        // write_all of the inner writer is overridden below: plain `write` is never used by strip::write_all
        let _ = buf;
        unreachable!("strip::write_all must delegate to the inner write_all")
    }
    fn write_all(&mut self, buf: &[u8]) -> std::io::Result<()> {
        let i = self.calls;
        self.calls += 1;
        if i < 6 {
            self.args[i] = (buf.as_ptr() as usize, buf.len());
        }
        if i == self.fail_at {
            return Err(self.kind.into());
        }
        Ok(())
    }
    fn flush(&mut self) -> std::io::Result<()> {
        Ok(())
    }
}

/// write_all: every run the scanner yields goes to the inner write_all once, in order; the first
/// inner error is returned with its kind and nothing is handed over after it
#[cfg_attr(kani, kani::proof, kani::unwind(10), kani::stub(crate::adapter::strip::next_bytes, crate::adapter::verif_kani_strip_scan::next_bytes_recorder))]
#[cfg_attr(not(kani), test)]
fn stream_write_all_plumbing() {
    const N: usize = 4;
    let buf = [0u8; N];
    let len = vk::any_usize_in(0, N);
    let input = &buf[..len];
    let base = input.as_ptr() as usize;
    let entry = any_state();
    let mut st = strip_bytes_in_state(entry);
    let mut w = AllWriter { calls: 0, args: [(0, 0); 6], fail_at: vk::any_usize_in(0, 6), kind: ErrorKind::Other };
    let r = write_all(&mut w, &mut st, input);
    let fin = strip_bytes_state(&st);
    let c0 = rec(0);
    assert!(rec_n() >= 1 && c0.in_ptr == base && c0.in_len == len && c0.in_state == entry, "write_all scans the whole buffer from the carried state");
    // scanner calls chain; every yielded run is handed over exactly once, in order
    let mut j = 0;
    let mut runs = 0;
    while j < REC_MAX {
        if j < rec_n() {
            let c = rec(j);
            if j > 0 {
                let p = rec(j - 1);
                assert!(c.in_ptr == p.in_ptr + p.k + p.n && c.in_len == p.in_len - p.k - p.n && c.in_state == p.out_state, "write_all continues the scan where it stopped");
            }
            if c.n > 0 {
                assert!(runs < w.calls && w.args[runs] == (c.in_ptr + c.k, c.n), "write_all hands every visible run to the inner write_all once, in order");
                runs += 1;
            }
        }
        j += 1;
    }
    assert!(runs == w.calls, "write_all hands over nothing but the visible runs");
    match &r {
        Ok(()) => {
            let last = rec(rec_n() - 1);
            assert!(last.n == 0 && last.in_ptr + last.k == base + len, "write_all succeeds only after the whole buffer was scanned");
            assert!(w.fail_at >= w.calls, "write_all succeeds only if no inner write_all failed");
            assert!(fin == last.out_state, "write_all carries the scanner's final state");
        }
        Err(e) => {
            assert!(e.kind() == ErrorKind::Other && w.fail_at == w.calls - 1, "the first inner error surfaces from write_all with its kind intact, and nothing is handed over after it");
        }
    }
    if w.fail_at < w.calls {
        assert!(r.is_err(), "an inner error is never turned into success by write_all");
    }
    vk::vk_cover!(r.is_err() && w.calls == 2, "second run fails");
    vk::vk_cover!(r.is_ok() && w.calls == 2, "two runs delivered");
}

use crate::verif_kani::fmt_stub::{fmt_write_failing_trait, fmt_write_two_fragments, FRAG1, FRAG2};

struct FailingDisplay;
impl std::fmt::Display for FailingDisplay {
    fn fmt(&self, _: &mut std::fmt::Formatter<'_>) -> std::fmt::Result {
        Err(std::fmt::Error)
    }
}

/// formatted writes: each fragment goes through write_all in order; an inner error is saved across
/// the fmt::Write boundary and returned with its kind; a formatter error without inner error is Other
#[cfg_attr(kani, kani::proof, kani::unwind(8),
    kani::stub(crate::adapter::strip::next_bytes, crate::adapter::verif_kani_strip_scan::next_bytes_recorder),
    kani::stub(core::fmt::write, fmt_write_two_fragments))]
#[cfg_attr(not(kani), test)]
fn stream_write_fmt_plumbing() {
    let entry = any_state();
    let mut st = strip_bytes_in_state(entry);
    let mut w = AllWriter { calls: 0, args: [(0, 0); 6], fail_at: vk::any_usize_in(0, 6), kind: ErrorKind::WouldBlock };
    let (f1, f2) = (FRAG1, FRAG2);
    let r = write_fmt(&mut w, &mut st, format_args!("{f1}{f2}"));
    // scanned input: fragment 1 entirely, then fragment 2 entirely (unless an error stopped it)
    let c0 = rec(0);
    assert!(rec_n() >= 1 && c0.in_ptr == f1.as_ptr() as usize && c0.in_len == 2 && c0.in_state == entry, "write_fmt strips the first fragment from the carried state");
    // every scanner call continues either the same fragment or starts the second one with the carried state
    let mut j = 1;
    while j < REC_MAX {
        if j < rec_n() {
            let c = rec(j);
            let p = rec(j - 1);
            let continues = c.in_ptr == p.in_ptr + p.k + p.n && c.in_len == p.in_len - p.k - p.n;
            let starts_second = p.in_ptr + p.k + p.n == f1.as_ptr() as usize + 2 && c.in_ptr == f2.as_ptr() as usize && c.in_len == 1;
            assert!((continues || starts_second) && c.in_state == p.out_state, "write_fmt scans the fragments in order, each to its end, carrying the state across fragments");
        }
        j += 1;
    }
    match &r {
        Ok(()) => {
            assert!(w.fail_at >= w.calls, "write_fmt succeeds only if no inner write failed");
            let last = rec(rec_n() - 1);
            assert!(last.in_ptr + last.k + last.n == f2.as_ptr() as usize + 1, "write_fmt succeeds only after the last fragment was scanned to its end");
            assert!(strip_bytes_state(&st) == last.out_state, "write_fmt carries the scanner's final state");
        }
        Err(e) => {
            assert!(e.kind() == ErrorKind::WouldBlock && w.fail_at == w.calls - 1, "an inner error surfaces from write_fmt with its kind intact, and nothing is handed over after it");
        }
    }
    if w.fail_at < w.calls {
        assert!(r.is_err(), "an inner error is never turned into success by write_fmt");
    }
    vk::vk_cover!(r.is_err(), "error path");
    vk::vk_cover!(r.is_ok() && w.calls >= 2, "both fragments delivered");
}

#[cfg_attr(kani, kani::proof, kani::unwind(8),
    kani::stub(crate::adapter::strip::next_bytes, crate::adapter::verif_kani_strip_scan::next_bytes_recorder),
    kani::stub(core::fmt::write, fmt_write_failing_trait))]
#[cfg_attr(not(kani), test)]
fn stream_write_fmt_formatter_error() {
    let mut st = strip_bytes_in_state(State::Ground);
    let mut w = AllWriter { calls: 0, args: [(0, 0); 6], fail_at: 99, kind: ErrorKind::WouldBlock };
    let f1 = FRAG1;
    let r = write_fmt(&mut w, &mut st, format_args!("{f1}{}", FailingDisplay));
    assert!(matches!(&r, Err(e) if e.kind() == ErrorKind::Other), "a formatter error without inner error is reported as Other, never as success");
}

