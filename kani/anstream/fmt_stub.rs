//! `core::fmt::write` as an uninterpreted formatter (no reference to any item of the crate under
//! test, so this module survives any refactoring of it).
//!
//! CBMC does not finish on the real `core::fmt::write` (its `fmt::Arguments` function pointers
//! may target every formatting function in the crate graph).  What a caller of `fmt::write` may
//! rely on is its documented contract: the rendered text arrives as a sequence of `write_str`
//! calls on `output`, in order; the first `write_str` error stops the rendering and is returned; a
//! formatting trait may also fail on its own.  The stand-ins below have exactly that shape with
//! two fixed fragments (Kani: `kani::stub(core::fmt::write, ..)`; the native replay build runs the
//! real `fmt::write` on a format string that renders to the same two fragments).
#![allow(dead_code, unused_imports, missing_docs, unreachable_pub, clippy::all)]

pub(crate) static FRAG1: &str = "ab";
pub(crate) static FRAG2: &str = "c";

pub(crate) fn fmt_write_two_fragments(output: &mut dyn core::fmt::Write, _args: core::fmt::Arguments<'_>) -> core::fmt::Result {
    output.write_str(FRAG1)?;
    output.write_str(FRAG2)
}

/// a formatting trait that fails after the first fragment (no error from `output`)
pub(crate) fn fmt_write_failing_trait(output: &mut dyn core::fmt::Write, _args: core::fmt::Arguments<'_>) -> core::fmt::Result {
    output.write_str(FRAG1)?;
    Err(core::fmt::Error)
}
