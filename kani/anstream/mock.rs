//! child of `stream` (appended `mod` line in the scratch copy): a scripted inner writer that
//! implements the sealed stream traits.  Every call takes a nondeterministic outcome, so one
//! harness covers every script of short writes and errors at once.
#![allow(dead_code, unused_imports, missing_docs, unreachable_pub, clippy::all)]
use super::*;
use crate::verif_kani::vk;
use std::io::ErrorKind;

pub(crate) const CAP: usize = 10;

#[derive(Debug)]
pub(crate) struct Mock {
    /// bytes accepted so far
    pub(crate) log: [u8; CAP],
    pub(crate) len: usize,
    /// number of write calls received
    pub(crate) calls: usize,
    /// how many more calls may misbehave (short write / error); afterwards everything is accepted
    pub(crate) faults_left: u8,
    /// kind of the last fatal outcome handed to the caller (non-Interrupted error, or WriteZero for Ok(0))
    pub(crate) last_fatal: Option<ErrorKind>,
    /// kind of the last error of any kind
    pub(crate) last_err: Option<ErrorKind>,
    pub(crate) flushes: usize,
    /// lock discipline (C19): as_locked_write acquisitions, writes outside a guard
    pub(crate) locks: usize,
    pub(crate) overflow: bool,
    pub(crate) terminal: bool,
}

impl Mock {
    pub(crate) fn new(faults: u8) -> Self {
        Mock { log: [0; CAP], len: 0, calls: 0, faults_left: faults, last_fatal: None, last_err: None, flushes: 0, locks: 0, overflow: false, terminal: false }
    }
    fn accept(&mut self, b: &[u8]) {
        let mut i = 0;
        while i < b.len() {
            if self.len < CAP {
                self.log[self.len] = b[i];
                self.len += 1;
            } else {
                self.overflow = true;
            }
            i += 1;
        }
    }
}

fn any_error_kind() -> ErrorKind {
    match vk::any_u8_in(0, 2) {
        0 => ErrorKind::Interrupted,
        1 => ErrorKind::WouldBlock,
        _ => ErrorKind::Other,
    }
}

impl std::io::Write for Mock {
    fn write(&mut self, buf: &[u8]) -> std::io::Result<usize> {
        self.calls += 1;
        if self.faults_left > 0 && vk::any_bool() {
            self.faults_left -= 1;
            if vk::any_bool() {
                let kind = any_error_kind();
                self.last_err = Some(kind);
                if kind != ErrorKind::Interrupted {
                    self.last_fatal = Some(kind);
                }
                return Err(kind.into());
            }
            let k = vk::any_usize_in(0, buf.len());
            self.accept(&buf[..k]);
            if k == 0 && !buf.is_empty() {
                self.last_fatal = Some(ErrorKind::WriteZero);
            }
            return Ok(k);
        }
        self.accept(buf);
        Ok(buf.len())
    }
    fn flush(&mut self) -> std::io::Result<()> {
        self.flushes += 1;
        Ok(())
    }
}

impl private::Sealed for Mock {}

impl IsTerminal for Mock {
    fn is_terminal(&self) -> bool {
        self.terminal
    }
}

impl RawStream for Mock {}

impl AsLockedWrite for Mock {
    type Write<'w> = &'w mut Self;

    fn as_locked_write(&mut self) -> Self::Write<'_> {
        self.locks += 1;
        self
    }
}

/// A writer that only counts (no byte log, no scripted faults, no branches): for harnesses that
/// look at routing and lock counts.  Storing bytes at a symbolic position, and the nested loop of
/// std's default `write_all`, are what makes CBMC slow on the scripted mock.
#[derive(Debug)]
pub(crate) struct CountMock {
    pub(crate) len: usize,
    pub(crate) calls: usize,
    pub(crate) flushes: usize,
    pub(crate) locks: usize,
}

impl CountMock {
    pub(crate) fn new() -> Self {
        CountMock { len: 0, calls: 0, flushes: 0, locks: 0 }
    }
}

impl std::io::Write for CountMock {
    fn write(&mut self, buf: &[u8]) -> std::io::Result<usize> {
        self.calls += 1;
        self.len += buf.len();
        Ok(buf.len())
    }
    fn write_all(&mut self, buf: &[u8]) -> std::io::Result<()> {
        self.calls += 1;
        self.len += buf.len();
        Ok(())
    }
    fn flush(&mut self) -> std::io::Result<()> {
        self.flushes += 1;
        Ok(())
    }
}

impl private::Sealed for CountMock {}

impl IsTerminal for CountMock {
    fn is_terminal(&self) -> bool {
        false
    }
}

impl RawStream for CountMock {}

impl AsLockedWrite for CountMock {
    type Write<'w> = &'w mut Self;

    fn as_locked_write(&mut self) -> Self::Write<'_> {
        self.locks += 1;
        self
    }
}
