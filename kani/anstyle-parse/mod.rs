//! Kani harnesses on the unmodified `anstyle-parse` crate: the E7 leaves of the Verus units
//! `parse_core` / `strip_scan` (transition table, unpack, osc_dispatch).
#![allow(dead_code, unused_imports, missing_docs, unreachable_pub, clippy::all)]
pub(crate) mod vk;
pub(crate) mod spec_vt;
use crate::state::{Action, State};
use spec_vt::*;

pub(crate) fn state_of(i: u8) -> State {
    match i {
        0 => State::Anywhere, 1 => State::CsiEntry, 2 => State::CsiIgnore, 3 => State::CsiIntermediate,
        4 => State::CsiParam, 5 => State::DcsEntry, 6 => State::DcsIgnore, 7 => State::DcsIntermediate,
        8 => State::DcsParam, 9 => State::DcsPassthrough, 10 => State::Escape, 11 => State::EscapeIntermediate,
        12 => State::Ground, 13 => State::OscString, 14 => State::SosPmApcString, _ => State::Utf8,
    }
}

/// the full 16 x 256 transition function equals S1 (complete)
#[cfg_attr(kani, kani::proof)]
#[cfg_attr(not(kani), test)]
fn vt_table_state_change_eq_spec() {
    let s = state_of(vk::any_u8_in(0, 15));
    let b = vk::any_u8();
    let got = crate::state::state_change(s, b);
    let want = vt(s, b);
    assert!(got.0 == want.0, "state_change: next state equals S1");
    assert!(got.1 == want.1, "state_change: action equals S1");
    vk::vk_cover!(s == State::OscString && b == 0x07, "BEL ends OSC");
    vk::vk_cover!(s == State::Ground && b == 0xc3, "UTF-8 lead in ground");
}

/// unpack is total on all 256 deltas: no invalid enum value (checked with -Z valid-value-checks), nibbles as documented
#[cfg_attr(kani, kani::proof)]
#[cfg_attr(not(kani), test)]
fn vt_table_unpack_total() {
    let d = vk::any_u8();
    let (s, a) = crate::state::unpack(d);
    assert!(s as u8 == d & 0x0f, "unpack: state is the low nibble");
    assert!(a as u8 == d >> 4, "unpack: action is the high nibble");
    vk::vk_cover!(d == 0xff, "0xff");
}

/// TryFrom<u8> for State / Action: total, Err outside 0..16
#[cfg_attr(kani, kani::proof)]
#[cfg_attr(not(kani), test)]
fn vt_table_try_from() {
    let d = vk::any_u8();
    let s = State::try_from(d);
    let a = Action::try_from(d);
    if d < 16 {
        assert!(s == Ok(state_of(d)) && a.map(|x| x as u8) == Ok(d), "TryFrom<u8>: 0..16 are the variants in order");
    } else {
        assert!(s == Err(d) && a == Err(d), "TryFrom<u8>: other values are rejected");
    }
}

// ---- osc_dispatch (unsafe: MaybeUninit array + raw slice cast) ----

struct OscRec {
    n: usize,
    ptrs: [(usize, usize); 16],
    bell: bool,
    calls: usize,
}

impl crate::Perform for OscRec {
    fn osc_dispatch(&mut self, params: &[&[u8]], bell_terminated: bool) {
        self.calls += 1;
        self.n = params.len();
        self.bell = bell_terminated;
        let mut i = 0;
        while i < 16 {
            if i < params.len() {
                self.ptrs[i] = (params[i].as_ptr() as usize, params[i].len());
            }
            i += 1;
        }
    }
}

/// E7 leaf of verus:parse_core::osc_dispatch: for every parameter count 0..=16 and every bounds
/// table satisfying the parser's OSC invariant over a payload of <= 6 bytes, the performer
/// receives exactly the slices osc_raw[b.0..b.1] and the terminator kind; memory safety of the
/// MaybeUninit array and the pointer cast is checked by Kani (BOUNDED in payload length only)
#[cfg_attr(kani, kani::proof, kani::unwind(18))]
#[cfg_attr(not(kani), test)]
fn parse_osc_dispatch_slices() {
    let mut p: crate::Parser = crate::Parser::default();
    let len = vk::any_usize_in(0, 6);
    let mut i = 0;
    while i < 6 {
        if i < len {
            p.osc_raw.push(vk::any_u8());
        }
        i += 1;
    }
    let n = vk::any_usize_in(0, 16);
    p.osc_num_params = n;
    let mut prev = 0usize;
    let mut i = 0;
    while i < 16 {
        if i < n {
            let end = vk::any_usize_in(prev, len);
            p.osc_params[i] = (prev, end);
            prev = end;
        }
        i += 1;
    }
    let byte = vk::any_u8();
    let mut rec = OscRec { n: 99, ptrs: [(0, 0); 16], bell: false, calls: 0 };
    p.osc_dispatch(&mut rec, byte);
    assert!(rec.calls == 1 && rec.n == n, "osc_dispatch reports exactly osc_num_params parameters, once");
    assert!(rec.bell == (byte == 0x07), "osc_dispatch reports BEL termination iff the terminator is BEL");
    let base = p.osc_raw.as_ptr() as usize;
    let mut i = 0;
    while i < 16 {
        if i < n {
            assert!(rec.ptrs[i] == (base + p.osc_params[i].0, p.osc_params[i].1 - p.osc_params[i].0), "each OSC parameter is the payload slice between its bounds");
        }
        i += 1;
    }
    vk::vk_cover!(n == 16, "sixteen parameters");
    vk::vk_cover!(n == 0, "no parameter");
}
