//! C16 — anstyle -> yansi.  The expected value is built with yansi's public builders.
#![allow(dead_code, unused_imports, missing_docs, unreachable_pub, clippy::all)]
pub(crate) mod vk;
pub(crate) mod astyle;
use astyle::*;
use yansi::Color as YColor;

fn hue(i: u8) -> YColor {
    match i {
        0 => YColor::Black, 1 => YColor::Red, 2 => YColor::Green, 3 => YColor::Yellow,
        4 => YColor::Blue, 5 => YColor::Magenta, 6 => YColor::Cyan, 7 => YColor::White,
        8 => YColor::BrightBlack, 9 => YColor::BrightRed, 10 => YColor::BrightGreen, 11 => YColor::BrightYellow,
        12 => YColor::BrightBlue, 13 => YColor::BrightMagenta, 14 => YColor::BrightCyan, _ => YColor::BrightWhite,
    }
}

fn want_color(c: AColor) -> YColor {
    if c.tag == 0 { hue(c.a) } else if c.tag == 1 { YColor::Fixed(c.a) } else { YColor::Rgb(c.a, c.b, c.c) }
}

#[cfg_attr(kani, kani::proof, kani::unwind(13))]
#[cfg_attr(not(kani), test)]
fn adapt_yansi() {
    let s = any_astyle();
    let got = crate::to_yansi_style(style_of(&s));
    // an unset colour is the terminal's primary colour in yansi
    let mut want = yansi::Style::new()
        .fg(s.fg.map(want_color).unwrap_or(YColor::Primary))
        .bg(s.bg.map(want_color).unwrap_or(YColor::Primary));
    if s.eff & BOLD != 0 { want = want.bold(); }
    if s.eff & DIMMED != 0 { want = want.dim(); }
    if s.eff & ITALIC != 0 { want = want.italic(); }
    if s.eff & UNDERLINE != 0 { want = want.underline(); }
    if s.eff & BLINK != 0 { want = want.blink(); }
    if s.eff & INVERT != 0 { want = want.invert(); }
    if s.eff & HIDDEN != 0 { want = want.conceal(); }
    if s.eff & STRIKETHROUGH != 0 { want = want.strike(); }
    assert!(got.foreground == want.foreground, "yansi: foreground keeps hue, brightness, index and RGB");
    assert!(got.background == want.background, "yansi: background keeps hue, brightness, index and RGB");
    assert!(got == want, "yansi: style has exactly the colours and expressible effects");
    if let Some(c) = s.fg {
        assert!(crate::to_yansi_color(color_of(c)) == want_color(c), "yansi: to_yansi_color");
    }
    vk::vk_cover!(s.fg.map(|c| c.tag == 0 && c.a == 12).unwrap_or(false), "bright blue fg");
}
