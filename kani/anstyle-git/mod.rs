//! C11 (and the git part of C04) — the git colour parser.
#![allow(dead_code, unused_imports, missing_docs, unreachable_pub, clippy::all)]
pub(crate) mod vk;
pub(crate) mod spec_sgr;
pub(crate) mod astyle;
pub(crate) mod amodel;
use anstyle::{Ansi256Color, AnsiColor, Color, Effects, RgbColor, Style};

fn is_hex(b: u8) -> bool {
    (b'0' <= b && b <= b'9') || (b'a' <= b && b <= b'f') || (b'A' <= b && b <= b'F')
}

fn hex_val(b: u8) -> u8 {
    if b <= b'9' { b - b'0' } else if b >= b'a' { b - b'a' + 10 } else { b - b'A' + 10 }
}

/// S7: what a colour word denotes.  Outer None = not a colour word; Some(None) = `normal` / `-1`.
/// `Err(())` = a spelling the statement does not fix (a decimal with a leading `+`).
fn want_color(w: &[u8]) -> Result<Option<Option<Color>>, ()> {
    let names: [(&[u8], AnsiColor); 8] = [
        (b"black", AnsiColor::Black), (b"red", AnsiColor::Red), (b"green", AnsiColor::Green), (b"yellow", AnsiColor::Yellow),
        (b"blue", AnsiColor::Blue), (b"magenta", AnsiColor::Magenta), (b"cyan", AnsiColor::Cyan), (b"white", AnsiColor::White),
    ];
    if w == b"normal" || w == b"-1" {
        return Ok(Some(None));
    }
    let mut i = 0;
    while i < 8 {
        if w == names[i].0 {
            return Ok(Some(Some(Color::Ansi(names[i].1))));
        }
        i += 1;
    }
    if !w.is_empty() && w[0] == b'#' {
        let h = &w[1..];
        if h.len() != 3 && h.len() != 6 {
            return Ok(None);
        }
        let mut j = 0;
        while j < h.len() {
            if !is_hex(h[j]) {
                return Ok(None);
            }
            j += 1;
        }
        if h.len() == 6 {
            return Ok(Some(Some(Color::Rgb(RgbColor(hex_val(h[0]) * 16 + hex_val(h[1]), hex_val(h[2]) * 16 + hex_val(h[3]), hex_val(h[4]) * 16 + hex_val(h[5]))))));
        }
        // `#rgb`: an RGB colour; which one is not fixed by the statement (git: each digit doubled)
        return Err(());
    }
    if !w.is_empty() && w[0] == b'+' {
        return Err(());
    }
    if w.is_empty() {
        return Ok(None);
    }
    let mut v: u32 = 0;
    let mut j = 0;
    while j < w.len() {
        if !(b'0' <= w[j] && w[j] <= b'9') {
            return Ok(None);
        }
        v = v * 10 + (w[j] - b'0') as u32;
        if v > 255 {
            return Ok(None);
        }
        j += 1;
    }
    Ok(Some(Some(Color::Ansi256(Ansi256Color(v as u8)))))
}

/// every UTF-8 word of up to N bytes: accepted iff S7 says so, with the denoted colour; never panics
fn color_word<const N: usize>() {
    let mut buf = [0u8; N];
    let mut i = 0;
    while i < N {
        buf[i] = vk::any_u8();
        i += 1;
    }
    let len = vk::any_usize_in(0, N);
    let w = &buf[..len];
    let word = match core::str::from_utf8(w) {
        Ok(s) => s,
        Err(_) => return,
    };
    let got = crate::parse_color(word);
    match want_color(w) {
        Ok(Some(c)) => assert!(got == Ok(c), "a colour word is accepted and denotes its colour"),
        Ok(None) => assert!(got.is_err(), "a word that is not a colour in git's syntax is rejected"),
        Err(()) => {
            if len > 0 && w[0] == b'#' {
                assert!(matches!(got, Ok(Some(Color::Rgb(_)))), "`#rgb` with hexadecimal digits is accepted as an RGB colour");
            }
        }
    }
    vk::vk_cover!(len >= 2 && w[0] == b'#' && !want_color(w).is_err() && got.is_err(), "rejected # word");
    vk::vk_cover!(matches!(got, Ok(Some(Color::Ansi256(_)))), "decimal colour");
}

#[cfg_attr(kani, kani::proof, kani::unwind(10))]
#[cfg_attr(not(kani), test)]
fn git_color_word_n4() {
    color_word::<4>();
}

/// `#` + six bytes over a hex / non-hex / non-ASCII alphabet (all 7-byte words of that shape)
#[cfg_attr(kani, kani::proof, kani::unwind(10))]
#[cfg_attr(not(kani), test)]
fn git_color_hash6() {
    let alphabet: [u8; 8] = [b'0', b'9', b'a', b'F', b'g', b'+', b'-', b' '];
    let mut buf = [b'#'; 7];
    let mut i = 1;
    while i < 7 {
        buf[i] = alphabet[vk::any_u8_in(0, 7) as usize];
        i += 1;
    }
    let word = core::str::from_utf8(&buf).unwrap();
    let got = crate::parse_color(word);
    match want_color(&buf) {
        Ok(Some(c)) => assert!(got == Ok(c), "`#rrggbb` denotes that RGB colour"),
        Ok(None) => assert!(got.is_err(), "`#` followed by anything but hexadecimal digits is rejected"),
        Err(()) => {}
    }
}

/// non-ASCII inside a `#` word: rejected, never a panic (byte slicing inside a character)
#[cfg_attr(kani, kani::proof, kani::unwind(10))]
#[cfg_attr(not(kani), test)]
fn git_color_hash_non_ascii() {
    assert!(crate::parse_color("#\u{e9}1").is_err(), "`#` followed by non-ASCII text is rejected without panicking");
    assert!(crate::parse_color("#1\u{e9}").is_err(), "`#` followed by non-ASCII text is rejected without panicking");
    assert!(crate::parse_color("#\u{e9}\u{e9}\u{e9}").is_err(), "`#` followed by non-ASCII text is rejected without panicking");
    assert!(crate::parse_color("#+5+5+5").is_err(), "signs are not hexadecimal digits");
    assert!(crate::parse_color("#\u{20ac}").is_err(), "`#` followed by a three-byte character is rejected without panicking");
}

/// the eight names, `normal`, longer words (concrete: beyond the symbolic word bound)
#[cfg_attr(kani, kani::proof, kani::unwind(14))]
#[cfg_attr(not(kani), test)]
fn git_color_names() {
    let words: [&str; 12] = ["black", "red", "green", "yellow", "blue", "magenta", "cyan", "white", "normal", "-1", "purple", "#aabbcc"];
    let mut i = 0;
    while i < 12 {
        let got = crate::parse_color(words[i]);
        match want_color(words[i].as_bytes()) {
            Ok(Some(c)) => assert!(got == Ok(c), "a colour name denotes its colour"),
            Ok(None) => assert!(got.is_err(), "an unknown name is rejected"),
            Err(()) => {}
        }
        i += 1;
    }
}

// ---- the word loop of `parse` (split on whitespace, case folding, attribute keywords, colour
// counter, error values), run by CBMC on CONCRETE strings: a bounded stand-in (the bound is the
// list of strings); symbolic strings through split_whitespace / to_lowercase do not finish.
// (Feasible at all only with -Z restrict-vtable and the io::Error recursion limit, DESIGN 8.26.)

fn style_of(fg: Option<Color>, bg: Option<Color>, e: Effects) -> Style {
    Style::new().fg_color(fg).bg_color(bg) | e
}

fn expect_ok(s: &str, fg: Option<Color>, bg: Option<Color>, e: Effects) {
    let got = crate::parse(s);
    assert!(got == Ok(style_of(fg, bg, e)), "a valid description denotes its style: first colour foreground, second background, attributes as a set where a later negation wins, any letter case, any whitespace");
}

fn expect_unknown(s: &str, w: &str) {
    match crate::parse(s) {
        Err(crate::Error::UnknownWord { style, word }) => assert!(word == w && style == s, "an unknown word is rejected with the error that names that word"),
        _ => assert!(false, "an unknown word is rejected as unknown"),
    }
}

fn expect_extra(s: &str, w: &str) {
    match crate::parse(s) {
        Err(crate::Error::ExtraColor { style, word }) => assert!(word == w && style == s, "a third colour is rejected with the error that names that word"),
        _ => assert!(false, "a third colour is rejected as an extra colour"),
    }
}

const RED: Option<Color> = Some(Color::Ansi(AnsiColor::Red));
const BLUE: Option<Color> = Some(Color::Ansi(AnsiColor::Blue));

macro_rules! words {
    ($name:ident, $body:block) => {
        // byte loops of std (to_lowercase, searching) run over whole strings of up to 23 bytes
        #[cfg_attr(kani, kani::proof, kani::unwind(26))]
        #[cfg_attr(not(kani), test)]
        fn $name() $body
    };
}

// every Unicode White_Space character separates words
words!(git_words_separators_0, {
    expect_ok("red\u{9}blue", RED, BLUE, Effects::new());
    expect_ok("red\u{a}blue", RED, BLUE, Effects::new());
    expect_ok("red\u{b}blue", RED, BLUE, Effects::new());
    expect_ok("red\u{c}blue", RED, BLUE, Effects::new());
    expect_ok("red\u{d}blue", RED, BLUE, Effects::new());
});
words!(git_words_separators_1, {
    expect_ok("red\u{20}blue", RED, BLUE, Effects::new());
    expect_ok("red\u{85}blue", RED, BLUE, Effects::new());
    expect_ok("red\u{a0}blue", RED, BLUE, Effects::new());
    expect_ok("red\u{1680}blue", RED, BLUE, Effects::new());
    expect_ok("red\u{2000}blue", RED, BLUE, Effects::new());
});
words!(git_words_separators_2, {
    expect_ok("red\u{2001}blue", RED, BLUE, Effects::new());
    expect_ok("red\u{2002}blue", RED, BLUE, Effects::new());
    expect_ok("red\u{2003}blue", RED, BLUE, Effects::new());
    expect_ok("red\u{2004}blue", RED, BLUE, Effects::new());
    expect_ok("red\u{2005}blue", RED, BLUE, Effects::new());
});
words!(git_words_separators_3, {
    expect_ok("red\u{2006}blue", RED, BLUE, Effects::new());
    expect_ok("red\u{2007}blue", RED, BLUE, Effects::new());
    expect_ok("red\u{2008}blue", RED, BLUE, Effects::new());
    expect_ok("red\u{2009}blue", RED, BLUE, Effects::new());
    expect_ok("red\u{200a}blue", RED, BLUE, Effects::new());
});
words!(git_words_separators_4, {
    expect_ok("red\u{2028}blue", RED, BLUE, Effects::new());
    expect_ok("red\u{2029}blue", RED, BLUE, Effects::new());
    expect_ok("red\u{202f}blue", RED, BLUE, Effects::new());
    expect_ok("red\u{205f}blue", RED, BLUE, Effects::new());
    expect_ok("red\u{3000}blue", RED, BLUE, Effects::new());
});
words!(git_words_blank, {
    expect_ok("", None, None, Effects::new());
    expect_ok(" \t\r\n", None, None, Effects::new());
    expect_ok("  red \t\n blue  ", RED, BLUE, Effects::new());
    expect_ok("red", RED, None, Effects::new());
});
words!(git_words_attr_bold, {
    expect_ok("bold", None, None, Effects::BOLD);
    expect_ok("bold nobold", None, None, Effects::new());
    expect_ok("bold no-bold", None, None, Effects::new());
    expect_ok("nobold bold", None, None, Effects::BOLD);
    expect_ok("no-bold", None, None, Effects::new());
});
words!(git_words_attr_dim, {
    expect_ok("dim", None, None, Effects::DIMMED);
    expect_ok("dim nodim", None, None, Effects::new());
    expect_ok("dim no-dim", None, None, Effects::new());
    expect_ok("nodim dim", None, None, Effects::DIMMED);
    expect_ok("no-dim", None, None, Effects::new());
});
words!(git_words_attr_ul, {
    expect_ok("ul", None, None, Effects::UNDERLINE);
    expect_ok("ul noul", None, None, Effects::new());
    expect_ok("ul no-ul", None, None, Effects::new());
    expect_ok("noul ul", None, None, Effects::UNDERLINE);
    expect_ok("no-ul", None, None, Effects::new());
});
words!(git_words_attr_blink, {
    expect_ok("blink", None, None, Effects::BLINK);
    expect_ok("blink noblink", None, None, Effects::new());
    expect_ok("blink no-blink", None, None, Effects::new());
    expect_ok("noblink blink", None, None, Effects::BLINK);
    expect_ok("no-blink", None, None, Effects::new());
});
words!(git_words_attr_reverse, {
    expect_ok("reverse", None, None, Effects::INVERT);
    expect_ok("reverse noreverse", None, None, Effects::new());
    expect_ok("reverse no-reverse", None, None, Effects::new());
    expect_ok("noreverse reverse", None, None, Effects::INVERT);
    expect_ok("no-reverse", None, None, Effects::new());
});
words!(git_words_attr_italic, {
    expect_ok("italic", None, None, Effects::ITALIC);
    expect_ok("italic noitalic", None, None, Effects::new());
    expect_ok("italic no-italic", None, None, Effects::new());
    expect_ok("noitalic italic", None, None, Effects::ITALIC);
    expect_ok("no-italic", None, None, Effects::new());
});
words!(git_words_attr_strike, {
    expect_ok("strike", None, None, Effects::STRIKETHROUGH);
    expect_ok("strike nostrike", None, None, Effects::new());
    expect_ok("strike no-strike", None, None, Effects::new());
    expect_ok("nostrike strike", None, None, Effects::STRIKETHROUGH);
    expect_ok("no-strike", None, None, Effects::new());
});
words!(git_words_case, {
    expect_ok("RED Blue", RED, BLUE, Effects::new());
    expect_ok("BoLd rEd", RED, None, Effects::BOLD);
    expect_ok("NO-UL UL", None, None, Effects::UNDERLINE);
    expect_ok("#AbCdEf", Some(Color::Rgb(RgbColor(0xab, 0xcd, 0xef))), None, Effects::new());
    expect_ok("NORMAL Red", None, RED, Effects::new());
});
words!(git_words_colour_slots, {
    expect_ok("-1 blue", None, BLUE, Effects::new());
    expect_ok("7 #ff0000", Some(Color::Ansi256(Ansi256Color(7))), Some(Color::Rgb(RgbColor(255, 0, 0))), Effects::new());
    expect_ok("bold red ul blue italic", RED, BLUE, Effects::BOLD | Effects::UNDERLINE | Effects::ITALIC);
    expect_ok("blue red", BLUE, RED, Effects::new());
});
words!(git_words_errors, {
    expect_extra("red blue green", "green");
    expect_extra("red blue 7", "7");
    expect_extra("bold red blue Normal", "Normal");
    expect_unknown("red foo", "foo");
    expect_unknown("Foo", "Foo");
    expect_unknown("red nobolds", "nobolds");
    expect_unknown("no--bold", "no--bold");
    expect_unknown("256", "256");
});
