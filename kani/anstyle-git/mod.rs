//! C11 (and the git part of C04) — the git colour parser.
#![allow(dead_code, unused_imports, missing_docs, unreachable_pub, clippy::all)]
pub(crate) mod vk;
pub(crate) mod spec_sgr;
pub(crate) mod astyle;
pub(crate) mod amodel;
use anstyle::{Ansi256Color, AnsiColor, Color, Effects, RgbColor, Style};

fn is_hex(b: u8) -> bool {
    (b'0' <= b && b <= b'9') || (b'a' <= b && b <= b'f') || (b'A' <= b && b <= b'F')
}

fn hex_val(b: u8) -> u8 {
    if b <= b'9' { b - b'0' } else if b >= b'a' { b - b'a' + 10 } else { b - b'A' + 10 }
}

/// S7: what a colour word denotes.  Outer None = not a colour word; Some(None) = `normal` / `-1`.
/// `Err(())` = a spelling the statement does not fix (a decimal with a leading `+`).
fn want_color(w: &[u8]) -> Result<Option<Option<Color>>, ()> {
    let names: [(&[u8], AnsiColor); 8] = [
        (b"black", AnsiColor::Black), (b"red", AnsiColor::Red), (b"green", AnsiColor::Green), (b"yellow", AnsiColor::Yellow),
        (b"blue", AnsiColor::Blue), (b"magenta", AnsiColor::Magenta), (b"cyan", AnsiColor::Cyan), (b"white", AnsiColor::White),
    ];
    if w == b"normal" || w == b"-1" {
        return Ok(Some(None));
    }
    let mut i = 0;
    while i < 8 {
        if w == names[i].0 {
            return Ok(Some(Some(Color::Ansi(names[i].1))));
        }
        i += 1;
    }
    if !w.is_empty() && w[0] == b'#' {
        let h = &w[1..];
        if h.len() != 3 && h.len() != 6 {
            return Ok(None);
        }
        let mut j = 0;
        while j < h.len() {
            if !is_hex(h[j]) {
                return Ok(None);
            }
            j += 1;
        }
        if h.len() == 6 {
            return Ok(Some(Some(Color::Rgb(RgbColor(hex_val(h[0]) * 16 + hex_val(h[1]), hex_val(h[2]) * 16 + hex_val(h[3]), hex_val(h[4]) * 16 + hex_val(h[5]))))));
        }
        // `#rgb`: an RGB colour; which one is not fixed by the statement (git: each digit doubled)
        return Err(());
    }
    if !w.is_empty() && w[0] == b'+' {
        return Err(());
    }
    if w.is_empty() {
        return Ok(None);
    }
    let mut v: u32 = 0;
    let mut j = 0;
    while j < w.len() {
        if !(b'0' <= w[j] && w[j] <= b'9') {
            return Ok(None);
        }
        v = v * 10 + (w[j] - b'0') as u32;
        if v > 255 {
            return Ok(None);
        }
        j += 1;
    }
    Ok(Some(Some(Color::Ansi256(Ansi256Color(v as u8)))))
}

/// every UTF-8 word of up to N bytes: accepted iff S7 says so, with the denoted colour; never panics
fn color_word<const N: usize>() {
    let mut buf = [0u8; N];
    let mut i = 0;
    while i < N {
        buf[i] = vk::any_u8();
        i += 1;
    }
    let len = vk::any_usize_in(0, N);
    let w = &buf[..len];
    let word = match core::str::from_utf8(w) {
        Ok(s) => s,
        Err(_) => return,
    };
    let got = crate::parse_color(word);
    match want_color(w) {
        Ok(Some(c)) => assert!(got == Ok(c), "a colour word is accepted and denotes its colour"),
        Ok(None) => assert!(got.is_err(), "a word that is not a colour in git's syntax is rejected"),
        Err(()) => {
            if len > 0 && w[0] == b'#' {
                assert!(matches!(got, Ok(Some(Color::Rgb(_)))), "`#rgb` with hexadecimal digits is accepted as an RGB colour");
            }
        }
    }
    vk::vk_cover!(len >= 2 && w[0] == b'#' && !want_color(w).is_err() && got.is_err(), "rejected # word");
    vk::vk_cover!(matches!(got, Ok(Some(Color::Ansi256(_)))), "decimal colour");
}

#[cfg_attr(kani, kani::proof, kani::unwind(10))]
#[cfg_attr(not(kani), test)]
fn git_color_word_n4() {
    color_word::<4>();
}

/// `#` + six bytes over a hex / non-hex / non-ASCII alphabet (all 7-byte words of that shape)
#[cfg_attr(kani, kani::proof, kani::unwind(10))]
#[cfg_attr(not(kani), test)]
fn git_color_hash6() {
    let alphabet: [u8; 8] = [b'0', b'9', b'a', b'F', b'g', b'+', b'-', b' '];
    let mut buf = [b'#'; 7];
    let mut i = 1;
    while i < 7 {
        buf[i] = alphabet[vk::any_u8_in(0, 7) as usize];
        i += 1;
    }
    let word = core::str::from_utf8(&buf).unwrap();
    let got = crate::parse_color(word);
    match want_color(&buf) {
        Ok(Some(c)) => assert!(got == Ok(c), "`#rrggbb` denotes that RGB colour"),
        Ok(None) => assert!(got.is_err(), "`#` followed by anything but hexadecimal digits is rejected"),
        Err(()) => {}
    }
}

/// non-ASCII inside a `#` word: rejected, never a panic (byte slicing inside a character)
#[cfg_attr(kani, kani::proof, kani::unwind(10))]
#[cfg_attr(not(kani), test)]
fn git_color_hash_non_ascii() {
    assert!(crate::parse_color("#\u{e9}1").is_err(), "`#` followed by non-ASCII text is rejected without panicking");
    assert!(crate::parse_color("#1\u{e9}").is_err(), "`#` followed by non-ASCII text is rejected without panicking");
    assert!(crate::parse_color("#\u{e9}\u{e9}\u{e9}").is_err(), "`#` followed by non-ASCII text is rejected without panicking");
    assert!(crate::parse_color("#+5+5+5").is_err(), "signs are not hexadecimal digits");
    assert!(crate::parse_color("#\u{20ac}").is_err(), "`#` followed by a three-byte character is rejected without panicking");
}

/// the eight names, `normal`, longer words (concrete: beyond the symbolic word bound)
#[cfg_attr(kani, kani::proof, kani::unwind(14))]
#[cfg_attr(not(kani), test)]
fn git_color_names() {
    let words: [&str; 12] = ["black", "red", "green", "yellow", "blue", "magenta", "cyan", "white", "normal", "-1", "purple", "#aabbcc"];
    let mut i = 0;
    while i < 12 {
        let got = crate::parse_color(words[i]);
        match want_color(words[i].as_bytes()) {
            Ok(Some(c)) => assert!(got == Ok(c), "a colour name denotes its colour"),
            Ok(None) => assert!(got.is_err(), "an unknown name is rejected"),
            Err(()) => {}
        }
        i += 1;
    }
}
