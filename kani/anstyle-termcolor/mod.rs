//! C16 — anstyle -> termcolor.  termcolor::Color has no bright variants (one shared `intense` flag): hue only.
#![allow(dead_code, unused_imports, missing_docs, unreachable_pub, clippy::all)]
pub(crate) mod vk;
pub(crate) mod astyle;
use astyle::*;
use termcolor::Color as TColor;

fn hue(i: u8) -> TColor {
    match i % 8 {
        0 => TColor::Black, 1 => TColor::Red, 2 => TColor::Green, 3 => TColor::Yellow,
        4 => TColor::Blue, 5 => TColor::Magenta, 6 => TColor::Cyan, _ => TColor::White,
    }
}

fn want_color(c: AColor) -> TColor {
    if c.tag == 0 { hue(c.a) } else if c.tag == 1 { TColor::Ansi256(c.a) } else { TColor::Rgb(c.a, c.b, c.c) }
}

#[cfg_attr(kani, kani::proof, kani::unwind(13))]
#[cfg_attr(not(kani), test)]
fn adapt_termcolor() {
    let s = any_astyle();
    let got = crate::to_termcolor_spec(style_of(&s));
    assert!(got.fg().copied() == s.fg.map(want_color), "termcolor: foreground keeps hue, index and RGB");
    assert!(got.bg().copied() == s.bg.map(want_color), "termcolor: background keeps hue, index and RGB");
    assert!(got.bold() == (s.eff & BOLD != 0), "termcolor: bold");
    assert!(got.dimmed() == (s.eff & DIMMED != 0), "termcolor: dimmed");
    assert!(got.italic() == (s.eff & ITALIC != 0), "termcolor: italic");
    assert!(got.underline() == (s.eff & UNDERLINE != 0), "termcolor: underline");
    if let Some(c) = s.fg {
        assert!(crate::to_termcolor_color(color_of(c)) == want_color(c), "termcolor: to_termcolor_color");
    }
    vk::vk_cover!(s.fg.map(|c| c.tag == 0 && c.a == 12).unwrap_or(false), "bright blue fg");
}
