//! C09 — the environment probes against a replaced `std::env::var_os`
#![allow(dead_code, unused_imports, missing_docs, unreachable_pub, clippy::all, static_mut_refs)]
pub(crate) mod vk;
use std::ffi::{OsStr, OsString};

/// candidate values of a variable: unset, "", "0", "1", "dumb", "xterm-256color", "truecolor", "24bit", "true"
const VALUES: [Option<&str>; 9] = [None, Some(""), Some("0"), Some("1"), Some("dumb"), Some("xterm-256color"), Some("truecolor"), Some("24bit"), Some("true")];

static mut WANT_KEY: &str = "";
static mut VALUE: usize = 0;
static mut ASKED_OTHER: bool = false;

fn var_os_stub<K: AsRef<OsStr>>(key: K) -> Option<OsString> {
    unsafe {
        if key.as_ref() == OsStr::new(WANT_KEY) {
            VALUES[VALUE].map(OsString::from)
        } else {
            ASKED_OTHER = true;
            None
        }
    }
}

fn set(key: &'static str, v: usize) -> Option<&'static str> {
    unsafe {
        WANT_KEY = key;
        VALUE = v;
        ASKED_OTHER = false;
    }
    VALUES[v]
}

fn only_that_variable() -> bool {
    unsafe { !ASKED_OTHER }
}

// Each harness walks the nine candidate values concretely (a symbolic choice among string
// constants of different lengths made CBMC report a spurious mismatch for some literals — the
// same check passes for every value taken concretely; see DESIGN.md section 8).

#[cfg_attr(kani, kani::proof, kani::unwind(16), kani::stub(std::env::var_os, var_os_stub))]
fn query_no_color() {
    let mut i = 0;
    while i < 9 {
        let v = set("NO_COLOR", i);
        let want = matches!(v, Some(s) if !s.is_empty());
        assert!(crate::no_color() == want, "NO_COLOR disables colour iff it is set and not empty");
        assert!(only_that_variable(), "no_color reads NO_COLOR only");
        i += 1;
    }
}

#[cfg_attr(kani, kani::proof, kani::unwind(16), kani::stub(std::env::var_os, var_os_stub))]
fn query_clicolor_force() {
    let mut i = 0;
    while i < 9 {
        let v = set("CLICOLOR_FORCE", i);
        let want = matches!(v, Some(s) if !s.is_empty());
        assert!(crate::clicolor_force() == want, "CLICOLOR_FORCE forces colour iff it is set and not empty");
        assert!(only_that_variable(), "clicolor_force reads CLICOLOR_FORCE only");
        i += 1;
    }
}

#[cfg_attr(kani, kani::proof, kani::unwind(16), kani::stub(std::env::var_os, var_os_stub))]
fn query_clicolor_plain() {
    let mut i = 0;
    while i < 9 {
        let v = set("CLICOLOR", i);
        let want = v.map(|s| s != "0");
        assert!(crate::clicolor() == want, "CLICOLOR: unset = no opinion, `0` = disabled, anything else = enabled");
        assert!(only_that_variable(), "clicolor reads CLICOLOR only");
        i += 1;
    }
}

#[cfg_attr(kani, kani::proof, kani::unwind(16), kani::stub(std::env::var_os, var_os_stub))]
fn query_term() {
    let mut i = 0;
    while i < 9 {
        let v = set("TERM", i);
        let want = matches!(v, Some(s) if s != "dumb");
        assert!(crate::term_supports_color() == want, "TERM: colour iff set to anything other than `dumb`");
        assert!(crate::term_supports_ansi_color() == want, "TERM: ANSI colour like colour on non-Windows platforms");
        assert!(only_that_variable(), "term_supports_color reads TERM only");
        i += 1;
    }
}

#[cfg_attr(kani, kani::proof, kani::unwind(16), kani::stub(std::env::var_os, var_os_stub))]
fn query_truecolor() {
    let mut i = 0;
    while i < 9 {
        let v = set("COLORTERM", i);
        let want = matches!(v, Some("truecolor") | Some("24bit"));
        assert!(crate::truecolor() == want, "COLORTERM: truecolor iff `truecolor` or `24bit`");
        assert!(only_that_variable(), "truecolor reads COLORTERM only");
        i += 1;
    }
}

#[cfg_attr(kani, kani::proof, kani::unwind(16), kani::stub(std::env::var_os, var_os_stub))]
fn query_ci() {
    let mut i = 0;
    while i < 9 {
        let v = set("CI", i);
        assert!(crate::is_ci() == v.is_some(), "CI: any value counts, only presence matters");
        assert!(only_that_variable(), "is_ci reads CI only");
        i += 1;
    }
}
