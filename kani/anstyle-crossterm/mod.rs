//! C16 — anstyle -> crossterm.  Expected value built from crossterm's documented colour names.
#![allow(dead_code, unused_imports, missing_docs, unreachable_pub, clippy::all)]
pub(crate) mod vk;
pub(crate) mod astyle;
use astyle::*;
use crossterm::style::{Attribute, Attributes, Color as XColor, ContentStyle};

/// crossterm docs: `Dark*` are the normal palette entries 1-6, plain names the bright ones
fn hue(i: u8) -> XColor {
    match i {
        0 => XColor::Black, 1 => XColor::DarkRed, 2 => XColor::DarkGreen, 3 => XColor::DarkYellow,
        4 => XColor::DarkBlue, 5 => XColor::DarkMagenta, 6 => XColor::DarkCyan, 7 => XColor::Grey,
        8 => XColor::DarkGrey, 9 => XColor::Red, 10 => XColor::Green, 11 => XColor::Yellow,
        12 => XColor::Blue, 13 => XColor::Magenta, 14 => XColor::Cyan, _ => XColor::White,
    }
}

fn want_color(c: AColor) -> XColor {
    if c.tag == 0 { hue(c.a) } else if c.tag == 1 { XColor::AnsiValue(c.a) } else { XColor::Rgb { r: c.a, g: c.b, b: c.c } }
}

#[cfg_attr(kani, kani::proof, kani::unwind(13))]
#[cfg_attr(not(kani), test)]
fn adapt_crossterm() {
    let s = any_astyle();
    let got = crate::to_crossterm(style_of(&s));
    assert!(got.foreground_color == s.fg.map(want_color), "crossterm: foreground keeps hue, brightness, index and RGB");
    assert!(got.background_color == s.bg.map(want_color), "crossterm: background keeps hue, brightness, index and RGB");
    assert!(got.underline_color == s.ul.map(want_color), "crossterm: underline colour keeps hue, brightness, index and RGB");
    let mut want = Attributes::default();
    if s.eff & BOLD != 0 { want.set(Attribute::Bold); }
    if s.eff & DIMMED != 0 { want.set(Attribute::Dim); }
    if s.eff & ITALIC != 0 { want.set(Attribute::Italic); }
    if s.eff & UNDERLINE != 0 { want.set(Attribute::Underlined); }
    if s.eff & BLINK != 0 { want.set(Attribute::SlowBlink); }
    if s.eff & INVERT != 0 { want.set(Attribute::Reverse); }
    if s.eff & HIDDEN != 0 { want.set(Attribute::Hidden); }
    if s.eff & STRIKETHROUGH != 0 { want.set(Attribute::CrossedOut); }
    assert!(got.attributes == want, "crossterm: exactly the expressible effects are set (strikethrough = CrossedOut)");
    vk::vk_cover!(s.fg.map(|c| c.tag == 0 && c.a == 12).unwrap_or(false), "bright blue fg");
}
