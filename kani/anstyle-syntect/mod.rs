//! C16 — syntect -> anstyle keeps RGB colours and bold/italic/underline.
#![allow(dead_code, unused_imports, missing_docs, unreachable_pub, clippy::all)]
pub(crate) mod vk;
pub(crate) mod astyle;
use anstyle::{Color, Effects, RgbColor};
use syntect::highlighting::{Color as SColor, FontStyle, Style as SStyle};

#[cfg_attr(kani, kani::proof)]
#[cfg_attr(not(kani), test)]
fn adapt_syntect() {
    let f = SColor { r: vk::any_u8(), g: vk::any_u8(), b: vk::any_u8(), a: vk::any_u8() };
    let b = SColor { r: vk::any_u8(), g: vk::any_u8(), b: vk::any_u8(), a: vk::any_u8() };
    let bits = vk::any_u8_in(0, 7);
    let mut fs = FontStyle::empty();
    if bits & 1 != 0 { fs |= FontStyle::BOLD; }
    if bits & 2 != 0 { fs |= FontStyle::UNDERLINE; }
    if bits & 4 != 0 { fs |= FontStyle::ITALIC; }
    let got = crate::to_anstyle(SStyle { foreground: f, background: b, font_style: fs });
    assert!(got.get_fg_color() == Some(Color::Rgb(RgbColor(f.r, f.g, f.b))), "syntect: foreground RGB kept");
    assert!(got.get_bg_color() == Some(Color::Rgb(RgbColor(b.r, b.g, b.b))), "syntect: background RGB kept");
    assert!(got.get_underline_color().is_none(), "syntect: no underline colour");
    let e = got.get_effects();
    assert!(e.contains(Effects::BOLD) == (bits & 1 != 0), "syntect: bold kept");
    assert!(e.contains(Effects::UNDERLINE) == (bits & 2 != 0), "syntect: underline kept");
    assert!(e.contains(Effects::ITALIC) == (bits & 4 != 0), "syntect: italic kept");
    let mut want = Effects::new();
    if bits & 1 != 0 { want = want.insert(Effects::BOLD); }
    if bits & 2 != 0 { want = want.insert(Effects::UNDERLINE); }
    if bits & 4 != 0 { want = want.insert(Effects::ITALIC); }
    assert!(e == want, "syntect: no other effect appears");
    assert!(crate::to_anstyle_color(f) == Color::Rgb(RgbColor(f.r, f.g, f.b)), "syntect: to_anstyle_color");
    vk::vk_cover!(bits == 7, "all three font styles");
}
