//! Kani twins of the Verus unit `lossy` (C10): cross-engine check + counterexample source.
#![allow(dead_code, unused_imports, missing_docs, unreachable_pub, clippy::all)]
pub(crate) mod vk;
pub(crate) mod spec_lossy;
use spec_lossy::*;
use anstyle::{AnsiColor, Ansi256Color, Color, RgbColor};

fn any_rgb() -> RgbColor {
    RgbColor(vk::any_u8(), vk::any_u8(), vk::any_u8())
}

/// exec twin of the spec predicate `first_argmin` (spec/lossy.rs)
fn is_first_argmin(s: &[RgbColor], c: RgbColor, lo: usize, hi: usize, i: usize) -> bool {
    if !(lo <= i && i < hi && hi <= s.len()) {
        return false;
    }
    let mut j = lo;
    while j < hi {
        if sd(c, s[i]) > sd(c, s[j]) {
            return false;
        }
        if j < i && !(sd(c, s[i]) < sd(c, s[j])) {
            return false;
        }
        j += 1;
    }
    true
}

/// distance == published red-mean metric (x512), no overflow.
/// Counterexample finder for the Verus obligation `distance` (which is the unbounded proof):
/// c1 fully symbolic, each component of c2 drawn from {0, 128, 255} — BOUNDED
/// (full 2^48 equivalence of two differently associated multiplier trees does not finish in CBMC).
#[cfg_attr(kani, kani::proof)]
#[cfg_attr(not(kani), test)]
fn lossy_distance_eq_spec() {
    let c1 = any_rgb();
    let pick = |k: u8| if k == 0 { 0u8 } else if k == 1 { 128 } else { 255 };
    let c2 = RgbColor(pick(vk::any_u8_in(0, 2)), pick(vk::any_u8_in(0, 2)), pick(vk::any_u8_in(0, 2)));
    let d = crate::distance(c1, c2);
    assert!(d as i64 == sd(c1, c2) as i64, "distance equals the red-mean metric sd(c1,c2)");
    let d2 = crate::distance(c2, c1);
    assert!(d2 == d, "distance is symmetric");
    vk::vk_cover!(c1.1 != c2.1, "green differs");
}

/// find_match on the two shipped palettes: result is the first argmin (complete in the colour)
#[cfg_attr(kani, kani::proof, kani::unwind(17))]
#[cfg_attr(not(kani), test)]
fn lossy_find_match_vga() {
    let c = any_rgb();
    let p = crate::palette::VGA;
    let r = p.find_match(c);
    let i = Ansi256Color::from_ansi(r).0 as usize;
    assert!(is_first_argmin(&p.0, c, 0, 16, i), "Palette::find_match(VGA) is the lowest-index nearest entry");
}

#[cfg_attr(kani, kani::proof, kani::unwind(17))]
#[cfg_attr(not(kani), test)]
fn lossy_find_match_win10() {
    let c = any_rgb();
    let p = crate::palette::WIN10_CONSOLE;
    let r = p.find_match(c);
    let i = Ansi256Color::from_ansi(r).0 as usize;
    assert!(is_first_argmin(&p.0, c, 0, 16, i), "Palette::find_match(WIN10) is the lowest-index nearest entry");
}

/// ties go to the lowest index: a palette whose sixteen entries are all the same colour maps
/// every input to entry 0 (counterexample source for the tie-break clause of verus:lossy::find_match)
#[cfg_attr(kani, kani::proof, kani::unwind(17))]
#[cfg_attr(not(kani), test)]
fn lossy_find_match_all_equal() {
    // one concrete repeated entry, one symbolic channel of the input: enough to expose a wrong tie-break
    let e = RgbColor(10, 20, 30);
    let p = crate::palette::Palette([e; 16]);
    let c = RgbColor(vk::any_u8(), 20, 30);
    assert!(p.find_match(c) == AnsiColor::Black, "when entries repeat, the lowest index wins");
    assert!(crate::rgb_to_ansi(c, p) == AnsiColor::Black, "rgb_to_ansi: when entries repeat, the lowest index wins");
}

/// conversions: already-target colours unchanged, indices 0-15 are the palette (complete)
#[cfg_attr(kani, kani::proof)]
#[cfg_attr(not(kani), test)]
fn lossy_passthrough_and_low_indices() {
    let pal = crate::palette::Palette([
        any_rgb(), any_rgb(), any_rgb(), any_rgb(), any_rgb(), any_rgb(), any_rgb(), any_rgb(),
        any_rgb(), any_rgb(), any_rgb(), any_rgb(), any_rgb(), any_rgb(), any_rgb(), any_rgb(),
    ]);
    let c = any_rgb();
    assert!(crate::color_to_rgb(Color::Rgb(c), pal) == c, "color_to_rgb: RGB unchanged");
    let i = vk::any_u8();
    assert!(crate::color_to_xterm(Color::Ansi256(Ansi256Color(i))) == Ansi256Color(i), "color_to_xterm: indexed unchanged");
    if i < 16 {
        let a = Ansi256Color(i).into_ansi().unwrap();
        assert!(crate::color_to_ansi(Color::Ansi(a), pal) == a, "color_to_ansi: 16-colour unchanged");
        assert!(crate::xterm_to_rgb(Ansi256Color(i), pal) == pal.0[i as usize], "xterm_to_rgb: indices 0-15 are the palette");
        assert!(crate::xterm_to_ansi(Ansi256Color(i), pal) == a, "xterm_to_ansi: indices 0-15 are the 16 colours");
        assert!(crate::ansi_to_rgb(a, pal) == pal.0[i as usize], "ansi_to_rgb: palette entry");
        assert!(crate::color_to_xterm(Color::Ansi(a)) == Ansi256Color(i), "color_to_xterm: 16-colour -> same index");
        assert!(pal.get(a) == pal.0[i as usize] && pal[a] == pal.0[i as usize], "Palette::get / Index");
    }
    vk::vk_cover!(i >= 16, "high index");
}

/// exactness at the edges of the 256-colour table, concretely (first and last cube entry, first
/// and last grey, and their neighbours): each maps to itself — a cheap twin of the Verus proof of
/// find_xterm_match that still decides when Z3 runs out of resources on a scan that stops early.
/// (All 240 entries at once, or a symbolic index, exceed 7 GB in CBMC.)
fn exact_at(i: usize) {
    let c = crate::XTERM_COLORS[i];
    let j = crate::rgb_to_xterm(c).0 as usize;
    assert!(j >= 16 && j <= i && crate::XTERM_COLORS[j] == c, "rgb_to_xterm: a colour of the 256-colour table maps to the first index that holds it");
}

#[cfg_attr(kani, kani::proof, kani::unwind(260))]
#[cfg_attr(not(kani), test)]
fn lossy_xterm_table_edges_lo() {
    exact_at(16);
    exact_at(17);
    exact_at(231);
}

#[cfg_attr(kani, kani::proof, kani::unwind(260))]
#[cfg_attr(not(kani), test)]
fn lossy_xterm_table_edges_hi() {
    exact_at(232);
    exact_at(254);
    exact_at(255);
}

/// nearest, for an arbitrary colour: no table entry 16..=255 is closer than the one returned, and
/// no earlier entry is as close (cross-engine twin of verus:lossy::find_xterm_match)
#[cfg_attr(kani, kani::proof, kani::unwind(260))]
#[cfg_attr(not(kani), test)]
fn lossy_xterm_nearest_any() {
    let c = any_rgb();
    let j = crate::rgb_to_xterm(c).0 as usize;
    assert!(j >= 16, "rgb_to_xterm never answers with one of the 16 user-defined colours");
    let dj = crate::distance(c, crate::XTERM_COLORS[j]);
    let mut k = 16usize;
    while k < 256 {
        let dk = crate::distance(c, crate::XTERM_COLORS[k]);
        assert!(dj <= dk && (k >= j || dj < dk), "rgb_to_xterm returns the first nearest entry of the 256-colour table");
        k += 1;
    }
}
