//! C16 — anstyle -> owo-colors.  The expected value is built with owo-colors' public builders.
#![allow(dead_code, unused_imports, missing_docs, unreachable_pub, clippy::all)]
pub(crate) mod vk;
pub(crate) mod astyle;
use astyle::*;
use owo_colors::{AnsiColors, DynColors, XtermColors};

fn hue(i: u8) -> AnsiColors {
    match i {
        0 => AnsiColors::Black, 1 => AnsiColors::Red, 2 => AnsiColors::Green, 3 => AnsiColors::Yellow,
        4 => AnsiColors::Blue, 5 => AnsiColors::Magenta, 6 => AnsiColors::Cyan, 7 => AnsiColors::White,
        8 => AnsiColors::BrightBlack, 9 => AnsiColors::BrightRed, 10 => AnsiColors::BrightGreen, 11 => AnsiColors::BrightYellow,
        12 => AnsiColors::BrightBlue, 13 => AnsiColors::BrightMagenta, 14 => AnsiColors::BrightCyan, _ => AnsiColors::BrightWhite,
    }
}

fn want_color(c: AColor) -> DynColors {
    if c.tag == 0 { DynColors::Ansi(hue(c.a)) } else if c.tag == 1 { DynColors::Xterm(XtermColors::from(c.a)) } else { DynColors::Rgb(c.a, c.b, c.c) }
}

#[cfg_attr(kani, kani::proof)]
#[cfg_attr(not(kani), test)]
fn adapt_owo_color() {
    let c = any_acolor();
    let got = crate::to_owo_colors(color_of(c));
    assert!(got == want_color(c), "owo-colors: colour keeps hue, brightness, index and RGB");
    if let DynColors::Xterm(x) = got {
        assert!(u8::from(x) == c.a, "owo-colors: 256-colour index is exact");
    }
    vk::vk_cover!(c.tag == 0 && c.a == 12, "bright blue");
}

#[cfg_attr(kani, kani::proof, kani::unwind(13))]
#[cfg_attr(not(kani), test)]
fn adapt_owo_style() {
    let s = any_astyle();
    let got = crate::to_owo_style(style_of(&s));
    let mut want = owo_colors::Style::new();
    if let Some(c) = s.fg { want = want.color(want_color(c)); }
    if let Some(c) = s.bg { want = want.on_color(want_color(c)); }
    if s.eff & BOLD != 0 { want = want.bold(); }
    if s.eff & DIMMED != 0 { want = want.dimmed(); }
    if s.eff & ITALIC != 0 { want = want.italic(); }
    if s.eff & UNDERLINE != 0 { want = want.underline(); }
    if s.eff & BLINK != 0 { want = want.blink(); }
    if s.eff & INVERT != 0 { want = want.reversed(); }
    if s.eff & HIDDEN != 0 { want = want.hidden(); }
    if s.eff & STRIKETHROUGH != 0 { want = want.strikethrough(); }
    assert!(got == want, "owo-colors: style has exactly the colours and expressible effects");
}
