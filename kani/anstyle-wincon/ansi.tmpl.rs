//! C17 — ANSI fallback of coloured writes: codes, data, reset; true progress; errors surface.
//!
//! `ansi::write_colored` is cut verbatim out of the working tree (tools/extract.py) and compiled
//! here with ONE difference in its environment (rule E10): the std macro `write!` is shadowed by a
//! local macro with the documented meaning of `io::Write::write_fmt` — render the arguments,
//! `write_all` the bytes, return the I/O error — because CBMC does not finish on std's own
//! `io::Write::write_fmt` (its default adapter and panic path), even for one concrete call
//! (measured: > 10 min).  Rendering still goes through the real `core::fmt::write` and the real
//! `Display` impls of anstyle.
#![allow(dead_code, unused_imports, unused_macros, missing_docs, unreachable_pub, clippy::all)]
use super::astyle::ansi_from_index;
use super::spec_sgr::*;
use super::vk;
use std::io::ErrorKind;

struct Render {
    b: [u8; 12],
    len: usize,
}

impl core::fmt::Write for Render {
    fn write_str(&mut self, s: &str) -> core::fmt::Result {
        let bytes = s.as_bytes();
        let mut i = 0;
        while i < 12 {
            if i < bytes.len() && self.len < 12 {
                self.b[self.len] = bytes[i];
                self.len += 1;
            }
            i += 1;
        }
        Ok(())
    }
}

fn write_fmt_as_documented<W: std::io::Write + ?Sized>(w: &mut W, args: core::fmt::Arguments<'_>) -> std::io::Result<()> {
    let mut r = Render { b: [0; 12], len: 0 };
    let _ = core::fmt::write(&mut r, args);
    w.write_all(&r.b[..r.len])
}

macro_rules! write {
    ($dst:expr, $($arg:tt)*) => {
        write_fmt_as_documented($dst, format_args!($($arg)*))
    };
}

//@fn crates/anstyle-wincon/src/ansi.rs write_colored
//@end

const CAP: usize = 24;

/// scripted writer: every call may fail (once) or, for the data write, accept any prefix
struct W {
    log: [u8; CAP],
    len: usize,
    calls: usize,
    fail_at: usize,
    data_ptr: usize,
    /// position of the data in the log and how much of it was accepted
    data_at: usize,
    data_taken: usize,
    data_calls: usize,
    overflow: bool,
}

impl std::io::Write for W {
    fn write(&mut self, buf: &[u8]) -> std::io::Result<usize> {
        let i = self.calls;
        self.calls += 1;
        if i == self.fail_at {
            return Err(ErrorKind::Other.into());
        }
        let mut take = buf.len();
        if buf.as_ptr() as usize == self.data_ptr {
            take = vk::any_usize_in(0, buf.len());
            self.data_at = self.len;
            self.data_taken = take;
            self.data_calls += 1;
        }
        // constant trip count (no symbolic loop bound): codes are at most 8 bytes, data at most 2
        let mut k = 0;
        while k < 8 {
            if k < take {
                if self.len < CAP {
                    self.log[self.len] = buf[k];
                    self.len += 1;
                } else {
                    self.overflow = true;
                }
            }
            k += 1;
        }
        if take > 8 {
            self.overflow = true;
        }
        Ok(take)
    }
    fn flush(&mut self) -> std::io::Result<()> {
        Ok(())
    }
}

fn opt_color(i: u8) -> Option<anstyle::AnsiColor> {
    if i < 16 { Some(ansi_from_index(i)) } else { None }
}

fn mc(i: u8) -> MColor {
    if i < 16 { MColor::Ansi(i) } else { MColor::Default }
}

/// all 17 x 17 colour pairs (symbolic), data of up to 2 bytes (symbolic), every failure point,
/// every prefix of the data accepted
fn colored(fgi: u8, bgi: u8, via_trait: bool, fail_at: usize) {
    let data_buf = [vk::any_u8(), vk::any_u8()];
    let dlen = vk::any_usize_in(1, 2);
    let data = &data_buf[..dlen];
    let mut w = W { log: [0; CAP], len: 0, calls: 0, fail_at, data_ptr: data.as_ptr() as usize, data_at: 0, data_taken: 0, data_calls: 0, overflow: false };
    let _ = via_trait;
    let r = write_colored(&mut w, opt_color(fgi), opt_color(bgi), data);
    let styled = fgi < 16 || bgi < 16;
    match &r {
        Ok(n) => {
            assert!(w.fail_at >= w.calls, "a coloured write succeeds only if no inner write failed");
            assert!(w.data_calls == 1 && *n == w.data_taken, "a coloured write returns the number of data bytes the writer accepted");
            assert!(!w.overflow, "codes, data and reset fit the expected size");
            // codes before the data interpret to exactly the requested colours
            let before = sgr_bytes(M_DEFAULT, &w.log, w.data_at, false);
            let want = MStyle { fg: mc(fgi), bg: mc(bgi), ul: MColor::Default, eff: 0 };
            assert!(before == Pure::Ok(want), "the bytes before the data are pure SGR selecting exactly the requested colours");
            if !styled {
                assert!(w.data_at == 0 && w.len == *n, "no code at all is emitted when neither colour is given");
            }
            // the data bytes unchanged
            let mut k = 0;
            while k < 2 {
                if k < *n {
                    assert!(w.log[w.data_at + k] == data[k], "the data bytes are forwarded unchanged");
                }
                k += 1;
            }
            // what follows the data is a reset (and only when a colour was given)
            let mut tail = [0u8; CAP];
            let tstart = w.data_at + *n;
            let mut t = 0;
            let mut q = 0;
            while q < CAP {
                if tstart + q < w.len {
                    tail[q] = w.log[tstart + q];
                    t = q + 1;
                }
                q += 1;
            }
            if styled {
                assert!(t > 0 && sgr_bytes(want, &tail, t, false) == Pure::Ok(M_DEFAULT), "the data is followed by a pure-SGR reset restoring the default state");
            } else {
                assert!(t == 0, "nothing follows the data when no colour was given");
            }
        }
        Err(e) => {
            assert!(e.kind() == ErrorKind::Other && w.fail_at < w.calls, "an inner error is returned with its kind");
        }
    }
    if w.fail_at < w.calls {
        assert!(r.is_err(), "an inner error is never turned into success");
    }
    if fail_at > 6 {
        vk::vk_cover!(r.is_ok() && w.data_taken < dlen, "short data write");
    } else {
        vk::vk_cover!(r.is_err(), "error path");
    }
}

// Colour pairs and the failing inner call are concrete per harness (symbolic pairs or a symbolic
// failure point through core::fmt::write do not finish in CBMC, measured); the data bytes and the
// accepted prefix of the data stay symbolic.  The bytes of every colour code come from
// AnsiColor::render_fg/render_bg, verified for all 16 colours in C05 (render_buffer_ansi).
macro_rules! case {
    ($name:ident, $fg:expr, $bg:expr, $tr:expr, $fail:expr) => {
        #[cfg_attr(kani, kani::proof)]
        #[cfg_attr(not(kani), test)]
        fn $name() {
            colored($fg, $bg, $tr, $fail);
        }
    };
}

case!(wincon_ansi_fg_only, 1, 16, false, 99);
case!(wincon_ansi_bg_only, 16, 12, false, 99);
case!(wincon_ansi_both, 15, 0, false, 99);
case!(wincon_ansi_none, 16, 16, false, 99);
case!(wincon_ansi_fail_first, 15, 0, false, 0);
case!(wincon_ansi_fail_data, 15, 0, false, 2);
case!(wincon_ansi_fail_reset, 15, 0, false, 3);
