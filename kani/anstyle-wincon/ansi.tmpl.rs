//! C17 — ANSI fallback of coloured writes: codes, data, reset; true progress; errors surface.
//!
//! `ansi::write_colored` is cut verbatim out of the working tree (tools/extract.py) and compiled
//! here with ONE difference in its environment (rule E10): the std macro `write!` is shadowed by a
//! local macro with the documented meaning of `io::Write::write_fmt` — render the argument,
//! `write_all` the bytes, return the I/O error — because CBMC does not finish on std's own
//! `io::Write::write_fmt` / `fmt::Arguments` (function pointers), even for one concrete call
//! (measured: > 10 min).  Rendering goes through the real `Display` impls of anstyle.
#![allow(dead_code, unused_imports, unused_macros, missing_docs, unreachable_pub, clippy::all)]
use super::astyle::ansi_from_index;
use super::spec_sgr::*;
use super::vk;
use std::io::ErrorKind;

struct Render {
    b: [u8; 12],
    len: usize,
}

impl core::fmt::Write for Render {
    fn write_str(&mut self, s: &str) -> core::fmt::Result {
        let bytes = s.as_bytes();
        let mut i = 0;
        while i < 12 {
            if i < bytes.len() && self.len < 12 {
                self.b[self.len] = bytes[i];
                self.len += 1;
            }
            i += 1;
        }
        Ok(())
    }
}

/// `write!(stream, "{}", x)` with its documented meaning: render `x` with default formatting
/// options, `write_all` the bytes, return the I/O error.  `x` is rendered by calling its Display
/// impl *statically* on a directly constructed Formatter (unstable `formatting_options`): going
/// through `fmt::Arguments` means function pointers, on which CBMC does not finish.
fn write_display_as_documented<W: std::io::Write + ?Sized, D: core::fmt::Display>(w: &mut W, d: &D) -> std::io::Result<()> {
    let mut r = Render { b: [0; 12], len: 0 };
    {
        let mut f = core::fmt::Formatter::new(&mut r, core::fmt::FormattingOptions::new());
        let _ = core::fmt::Display::fmt(d, &mut f);
    }
    w.write_all(&r.b[..r.len])
}

macro_rules! write {
    ($dst:expr, "{}", $arg:expr) => {
        write_display_as_documented($dst, &$arg)
    };
}

//@fn crates/anstyle-wincon/src/ansi.rs write_colored
//@end

const MAXW: usize = 5;
const HEAD: usize = 8;

/// scripted writer: records every call (kind, slice address, length, first bytes — copied at
/// fixed positions); one call may fail; the data write accepts any prefix
struct W {
    calls: usize,
    /// true: the call was a `write_all` (a code), false: a plain `write` (the data)
    all: [bool; MAXW],
    ptr: [usize; MAXW],
    len: [usize; MAXW],
    head: [[u8; HEAD]; MAXW],
    fail_at: usize,
    data_taken: usize,
}

impl W {
    fn record(&mut self, all: bool, buf: &[u8]) -> usize {
        let i = self.calls;
        self.calls += 1;
        if i < MAXW {
            self.all[i] = all;
            self.ptr[i] = buf.as_ptr() as usize;
            self.len[i] = buf.len();
            let mut k = 0;
            while k < HEAD {
                if k < buf.len() {
                    self.head[i][k] = buf[k];
                }
                k += 1;
            }
        }
        i
    }
}

impl std::io::Write for W {
    fn write(&mut self, buf: &[u8]) -> std::io::Result<usize> {
        let i = self.record(false, buf);
        if i == self.fail_at {
            return Err(ErrorKind::Other.into());
        }
        let take = vk::any_usize_in(0, buf.len());
        self.data_taken = take;
        Ok(take)
    }
    /// a writer's `write_all` either takes everything or fails (std's default loop over `write`
    /// is not part of what is verified here)
    fn write_all(&mut self, buf: &[u8]) -> std::io::Result<()> {
        let i = self.record(true, buf);
        if i == self.fail_at {
            return Err(ErrorKind::Other.into());
        }
        Ok(())
    }
    fn flush(&mut self) -> std::io::Result<()> {
        Ok(())
    }
}

fn opt_color(i: u8) -> Option<anstyle::AnsiColor> {
    if i < 16 { Some(ansi_from_index(i)) } else { None }
}

/// S4 reading of recorded call `i` applied to `from`: pure SGR and fully within the standards
fn interpret(w: &W, i: usize, from: MStyle) -> Option<MStyle> {
    if i >= MAXW || w.len[i] > HEAD {
        return None;
    }
    match sgr_bytes(from, &w.head[i], w.len[i], false) {
        Pure::Ok(s) => Some(s),
        _ => None,
    }
}

/// colour pair `fgi`, `bgi` (16 = not given), inner call `fail_at` fails (>= 4: none);
/// data of 1-2 symbolic bytes; any prefix of the data accepted
fn colored(fgi: u8, bgi: u8, fail_at: usize) -> u8 {
    let data_buf = [vk::any_u8(), vk::any_u8()];
    let dlen = vk::any_usize_in(1, 2);
    let data = &data_buf[..dlen];
    let mut w = W { calls: 0, all: [false; MAXW], ptr: [0; MAXW], len: [0; MAXW], head: [[0; HEAD]; MAXW], fail_at, data_taken: 0 };
    let r = write_colored(&mut w, opt_color(fgi), opt_color(bgi), data);
    let styled = fgi < 16 || bgi < 16;
    let ncodes = (if fgi < 16 { 1 } else { 0 }) + (if bgi < 16 { 1 } else { 0 });
    let total = if styled { ncodes + 2 } else { 1 };
    // the calls made, in order, up to and including the failing one
    let made = if fail_at < total { fail_at + 1 } else { total };
    assert!(w.calls == made, "a coloured write makes the foreground code, the background code, one data write and one reset, in this order, and stops at the first inner error");
    // what the terminal shows after each code that was written
    let mut shown = M_DEFAULT;
    let mut i = 0;
    if fgi < 16 && i < made {
        assert!(w.all[i], "codes are written completely (write_all)");
        match interpret(&w, i, shown) {
            Some(s) => {
                assert!(s.fg == MColor::Ansi(fgi) && s.bg == shown.bg && s.ul == shown.ul && s.eff == shown.eff, "the foreground code selects exactly the requested foreground colour");
                shown = s;
            }
            None => assert!(false, "the foreground code is a standard SGR sequence"),
        }
    }
    if fgi < 16 { i += 1; }
    if bgi < 16 && i < made {
        assert!(w.all[i], "codes are written completely (write_all)");
        match interpret(&w, i, shown) {
            Some(s) => {
                assert!(s.bg == MColor::Ansi(bgi) && s.fg == shown.fg && s.ul == shown.ul && s.eff == shown.eff, "the background code selects exactly the requested background colour");
                shown = s;
            }
            None => assert!(false, "the background code is a standard SGR sequence"),
        }
    }
    if bgi < 16 { i += 1; }
    if i < made {
        // the data: one plain write of the caller's slice, after the codes
        assert!(!w.all[i] && w.ptr[i] == data.as_ptr() as usize && w.len[i] == dlen, "the data bytes are handed over unchanged, in one write, right after the codes (no code at all when neither colour is given)");
        assert!(shown.fg == (if fgi < 16 { MColor::Ansi(fgi) } else { MColor::Default }) && shown.bg == (if bgi < 16 { MColor::Ansi(bgi) } else { MColor::Default }) && shown.eff == 0 && shown.ul == MColor::Default,
            "the data is shown in exactly the requested colours");
    }
    i += 1;
    if styled && i < made {
        assert!(w.all[i], "codes are written completely (write_all)");
        match interpret(&w, i, shown) {
            Some(s) => assert!(s == M_DEFAULT, "the data is followed by a reset that restores the default state"),
            None => assert!(false, "the reset is a standard SGR sequence"),
        }
    }
    match &r {
        Ok(n) => {
            assert!(fail_at >= total, "a coloured write succeeds only if no inner write failed");
            assert!(*n == w.data_taken, "a coloured write returns the number of data bytes the writer accepted");
        }
        Err(e) => {
            assert!(e.kind() == ErrorKind::Other && fail_at < total, "an inner error is returned with its kind");
        }
    }
    if fail_at < total {
        assert!(r.is_err(), "an inner error is never turned into success");
    }
    // summary for the reachability witnesses of the calling harness
    (if r.is_ok() && w.data_taken < dlen { 1 } else { 0 }) | (if r.is_ok() && w.data_taken == 2 { 2 } else { 0 }) | (if r.is_err() { 4 } else { 0 })
}

// Colours are concrete in every call, data bytes and the accepted prefix symbolic.  (With
// *symbolic* colours CBMC reports the background code and the reset as "not standard SGR" while
// every one of the 17 x 17 x 5 concrete cases passes natively (wincon_ansi_native_all_pairs):
// render_fg/render_bg select among 16 string literals, and reading through that symbolic pointer is
// over-approximated — the same artefact as with the environment strings of C09; DESIGN 8.16.)
macro_rules! cases {
    ($name:ident, [$(($fg:expr, $bg:expr, $fail:expr)),+]) => {
        // the bound covers the HEAD-byte copy loops, S4's flat passes (10) and Render (12)
        #[cfg_attr(kani, kani::proof, kani::unwind(14))]
        #[cfg_attr(not(kani), test)]
        fn $name() {
            let mut seen = 0u8;
            $( seen |= colored($fg, $bg, $fail); )+
            vk::vk_cover!(seen & 1 != 0 || seen == 4, "a short data write (success cases)");
            vk::vk_cover!(seen & 2 != 0 || seen == 4, "both data bytes accepted (success cases)");
            vk::vk_cover!(seen & 4 != 0 || seen & 4 == 0 && seen != 0, "a case ran to its end");
        }
    };
}

// every foreground colour alone, every background colour alone, no colour
cases!(wincon_ansi_fg_0_3, [(0, 16, 99), (1, 16, 99), (2, 16, 99), (3, 16, 99)]);
cases!(wincon_ansi_fg_4_7, [(4, 16, 99), (5, 16, 99), (6, 16, 99), (7, 16, 99)]);
cases!(wincon_ansi_fg_8_11, [(8, 16, 99), (9, 16, 99), (10, 16, 99), (11, 16, 99)]);
cases!(wincon_ansi_fg_12_15, [(12, 16, 99), (13, 16, 99), (14, 16, 99), (15, 16, 99)]);
cases!(wincon_ansi_bg_0_3, [(16, 0, 99), (16, 1, 99), (16, 2, 99), (16, 3, 99)]);
cases!(wincon_ansi_bg_4_7, [(16, 4, 99), (16, 5, 99), (16, 6, 99), (16, 7, 99)]);
cases!(wincon_ansi_bg_8_11, [(16, 8, 99), (16, 9, 99), (16, 10, 99), (16, 11, 99)]);
cases!(wincon_ansi_bg_12_15, [(16, 12, 99), (16, 13, 99), (16, 14, 99), (16, 15, 99)]);
cases!(wincon_ansi_none, [(16, 16, 99)]);
// sixteen two-colour pairs (every colour once in each slot)
cases!(wincon_ansi_both_a, [(0, 3, 99), (1, 10, 99), (2, 1, 99), (3, 8, 99)]);
cases!(wincon_ansi_both_b, [(4, 15, 99), (5, 6, 99), (6, 13, 99), (7, 4, 99)]);
cases!(wincon_ansi_both_c, [(8, 11, 99), (9, 2, 99), (10, 9, 99), (11, 0, 99)]);
cases!(wincon_ansi_both_d, [(12, 7, 99), (13, 14, 99), (14, 5, 99), (15, 12, 99)]);
// every failure point: two colours (4 inner writes), one colour in either slot (3 inner writes)
cases!(wincon_ansi_fail_both, [(15, 0, 0), (15, 0, 1), (15, 0, 2), (15, 0, 3)]);
cases!(wincon_ansi_fail_single, [(9, 16, 0), (9, 16, 1), (9, 16, 2), (16, 4, 0), (16, 4, 1), (16, 4, 2), (16, 16, 0)]);

// ---- thorough tier: all 17 x 17 colour pairs x every failure point (concrete colours, one row
// of the pair table per harness) ----
macro_rules! row {
    ($name:ident, $fg:expr, $fail:expr) => {
        // 17 calls in a concrete loop (+1), the other bounds as above
        #[cfg_attr(kani, kani::proof, kani::unwind(19))]
        #[cfg_attr(not(kani), test)]
        fn $name() {
            let mut seen = 0u8;
            let mut bg = 0u8;
            while bg <= 16 {
                seen |= colored($fg, bg, $fail);
                bg += 1;
            }
            vk::vk_cover!(seen != 0, "the row ran to its end");
        }
    };
}
row!(wincon_ansi_row_ok_fg00, 0, 99);
row!(wincon_ansi_row_ok_fg01, 1, 99);
row!(wincon_ansi_row_ok_fg02, 2, 99);
row!(wincon_ansi_row_ok_fg03, 3, 99);
row!(wincon_ansi_row_ok_fg04, 4, 99);
row!(wincon_ansi_row_ok_fg05, 5, 99);
row!(wincon_ansi_row_ok_fg06, 6, 99);
row!(wincon_ansi_row_ok_fg07, 7, 99);
row!(wincon_ansi_row_ok_fg08, 8, 99);
row!(wincon_ansi_row_ok_fg09, 9, 99);
row!(wincon_ansi_row_ok_fg10, 10, 99);
row!(wincon_ansi_row_ok_fg11, 11, 99);
row!(wincon_ansi_row_ok_fg12, 12, 99);
row!(wincon_ansi_row_ok_fg13, 13, 99);
row!(wincon_ansi_row_ok_fg14, 14, 99);
row!(wincon_ansi_row_ok_fg15, 15, 99);
row!(wincon_ansi_row_ok_fg16, 16, 99);
row!(wincon_ansi_row_f0_fg00, 0, 0);
row!(wincon_ansi_row_f0_fg01, 1, 0);
row!(wincon_ansi_row_f0_fg02, 2, 0);
row!(wincon_ansi_row_f0_fg03, 3, 0);
row!(wincon_ansi_row_f0_fg04, 4, 0);
row!(wincon_ansi_row_f0_fg05, 5, 0);
row!(wincon_ansi_row_f0_fg06, 6, 0);
row!(wincon_ansi_row_f0_fg07, 7, 0);
row!(wincon_ansi_row_f0_fg08, 8, 0);
row!(wincon_ansi_row_f0_fg09, 9, 0);
row!(wincon_ansi_row_f0_fg10, 10, 0);
row!(wincon_ansi_row_f0_fg11, 11, 0);
row!(wincon_ansi_row_f0_fg12, 12, 0);
row!(wincon_ansi_row_f0_fg13, 13, 0);
row!(wincon_ansi_row_f0_fg14, 14, 0);
row!(wincon_ansi_row_f0_fg15, 15, 0);
row!(wincon_ansi_row_f0_fg16, 16, 0);
row!(wincon_ansi_row_f1_fg00, 0, 1);
row!(wincon_ansi_row_f1_fg01, 1, 1);
row!(wincon_ansi_row_f1_fg02, 2, 1);
row!(wincon_ansi_row_f1_fg03, 3, 1);
row!(wincon_ansi_row_f1_fg04, 4, 1);
row!(wincon_ansi_row_f1_fg05, 5, 1);
row!(wincon_ansi_row_f1_fg06, 6, 1);
row!(wincon_ansi_row_f1_fg07, 7, 1);
row!(wincon_ansi_row_f1_fg08, 8, 1);
row!(wincon_ansi_row_f1_fg09, 9, 1);
row!(wincon_ansi_row_f1_fg10, 10, 1);
row!(wincon_ansi_row_f1_fg11, 11, 1);
row!(wincon_ansi_row_f1_fg12, 12, 1);
row!(wincon_ansi_row_f1_fg13, 13, 1);
row!(wincon_ansi_row_f1_fg14, 14, 1);
row!(wincon_ansi_row_f1_fg15, 15, 1);
row!(wincon_ansi_row_f1_fg16, 16, 1);
row!(wincon_ansi_row_f2_fg00, 0, 2);
row!(wincon_ansi_row_f2_fg01, 1, 2);
row!(wincon_ansi_row_f2_fg02, 2, 2);
row!(wincon_ansi_row_f2_fg03, 3, 2);
row!(wincon_ansi_row_f2_fg04, 4, 2);
row!(wincon_ansi_row_f2_fg05, 5, 2);
row!(wincon_ansi_row_f2_fg06, 6, 2);
row!(wincon_ansi_row_f2_fg07, 7, 2);
row!(wincon_ansi_row_f2_fg08, 8, 2);
row!(wincon_ansi_row_f2_fg09, 9, 2);
row!(wincon_ansi_row_f2_fg10, 10, 2);
row!(wincon_ansi_row_f2_fg11, 11, 2);
row!(wincon_ansi_row_f2_fg12, 12, 2);
row!(wincon_ansi_row_f2_fg13, 13, 2);
row!(wincon_ansi_row_f2_fg14, 14, 2);
row!(wincon_ansi_row_f2_fg15, 15, 2);
row!(wincon_ansi_row_f2_fg16, 16, 2);
row!(wincon_ansi_row_f3_fg00, 0, 3);
row!(wincon_ansi_row_f3_fg01, 1, 3);
row!(wincon_ansi_row_f3_fg02, 2, 3);
row!(wincon_ansi_row_f3_fg03, 3, 3);
row!(wincon_ansi_row_f3_fg04, 4, 3);
row!(wincon_ansi_row_f3_fg05, 5, 3);
row!(wincon_ansi_row_f3_fg06, 6, 3);
row!(wincon_ansi_row_f3_fg07, 7, 3);
row!(wincon_ansi_row_f3_fg08, 8, 3);
row!(wincon_ansi_row_f3_fg09, 9, 3);
row!(wincon_ansi_row_f3_fg10, 10, 3);
row!(wincon_ansi_row_f3_fg11, 11, 3);
row!(wincon_ansi_row_f3_fg12, 12, 3);
row!(wincon_ansi_row_f3_fg13, 13, 3);
row!(wincon_ansi_row_f3_fg14, 14, 3);
row!(wincon_ansi_row_f3_fg15, 15, 3);
row!(wincon_ansi_row_f3_fg16, 16, 3);

/// native only (replay build): every pair and failure point, default data — a plain exhaustive
/// test of the harness logic itself against the real code
#[cfg(not(kani))]
#[test]
fn wincon_ansi_native_all_pairs() {
    for fail in [0usize, 1, 2, 3, 99] {
        for fg in 0..=16u8 {
            for bg in 0..=16u8 {
                let _ = colored(fg, bg, fail);
            }
        }
    }
}
