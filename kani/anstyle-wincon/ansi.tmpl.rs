//! C17 — ANSI fallback of coloured writes: codes, data, reset; true progress; errors surface.
//!
//! `ansi::write_colored` is cut verbatim out of the working tree (tools/extract.py) and compiled
//! here with ONE difference in its environment (rule E10): the std macro `write!` is shadowed by a
//! local macro with the documented meaning of `io::Write::write_fmt` — render the argument,
//! `write_all` the bytes, return the I/O error — because CBMC does not finish on std's own
//! `io::Write::write_fmt` / `fmt::Arguments` (function pointers), even for one concrete call
//! (measured: > 10 min).  Rendering goes through the real `Display` impls of anstyle.
#![allow(dead_code, unused_imports, unused_macros, missing_docs, unreachable_pub, clippy::all)]
use super::astyle::ansi_from_index;
use super::spec_sgr::*;
use super::vk;
use std::io::ErrorKind;

struct Render {
    b: [u8; 12],
    len: usize,
}

impl core::fmt::Write for Render {
    fn write_str(&mut self, s: &str) -> core::fmt::Result {
        let bytes = s.as_bytes();
        let mut i = 0;
        while i < 12 {
            if i < bytes.len() && self.len < 12 {
                self.b[self.len] = bytes[i];
                self.len += 1;
            }
            i += 1;
        }
        Ok(())
    }
}

/// `write!(stream, "{}", x)` with its documented meaning: render `x` with default formatting
/// options, `write_all` the bytes, return the I/O error.  `x` is rendered by calling its Display
/// impl *statically* on a directly constructed Formatter (unstable `formatting_options`): going
/// through `fmt::Arguments` means function pointers, on which CBMC does not finish.
fn write_display_as_documented<W: std::io::Write + ?Sized, D: core::fmt::Display>(w: &mut W, d: &D) -> std::io::Result<()> {
    let mut r = Render { b: [0; 12], len: 0 };
    {
        let mut f = core::fmt::Formatter::new(&mut r, core::fmt::FormattingOptions::new());
        let _ = core::fmt::Display::fmt(d, &mut f);
    }
    w.write_all(&r.b[..r.len])
}

macro_rules! write {
    ($dst:expr, "{}", $arg:expr) => {
        write_display_as_documented($dst, &$arg)
    };
}

//@fn crates/anstyle-wincon/src/ansi.rs write_colored
//@end

const MAXW: usize = 6;

/// scripted writer: records every call (slice address, length, first bytes — copied at fixed
/// positions, no symbolic-index writes); one concrete call fails; the data write accepts any prefix
struct W {
    calls: usize,
    ptr: [usize; MAXW],
    len: [usize; MAXW],
    head: [[u8; 8]; MAXW],
    fail_at: usize,
    data_ptr: usize,
    data_call: usize,
    data_taken: usize,
}

impl std::io::Write for W {
    fn write(&mut self, buf: &[u8]) -> std::io::Result<usize> {
        let i = self.calls;
        self.calls += 1;
        if i < MAXW {
            self.ptr[i] = buf.as_ptr() as usize;
            self.len[i] = buf.len();
            let mut k = 0;
            while k < 8 {
                if k < buf.len() {
                    self.head[i][k] = buf[k];
                }
                k += 1;
            }
        }
        if i == self.fail_at {
            return Err(ErrorKind::Other.into());
        }
        if buf.as_ptr() as usize == self.data_ptr {
            let take = vk::any_usize_in(0, buf.len());
            self.data_call = i;
            self.data_taken = take;
            return Ok(take);
        }
        Ok(buf.len())
    }
    fn flush(&mut self) -> std::io::Result<()> {
        Ok(())
    }
}

/// what anstyle renders for a colour code / the reset (their meaning is verified in C05)
struct Exp {
    b: [u8; 8],
    len: usize,
}

impl std::io::Write for Exp {
    fn write(&mut self, buf: &[u8]) -> std::io::Result<usize> {
        let mut k = 0;
        while k < 8 {
            if k < buf.len() && self.len < 8 {
                self.b[self.len] = buf[k];
                self.len += 1;
            }
            k += 1;
        }
        Ok(buf.len())
    }
    fn flush(&mut self) -> std::io::Result<()> {
        Ok(())
    }
}

fn opt_color(i: u8) -> Option<anstyle::AnsiColor> {
    if i < 16 { Some(ansi_from_index(i)) } else { None }
}

fn call_is(w: &W, i: usize, e: &Exp) -> bool {
    if i >= w.calls || w.len[i] != e.len {
        return false;
    }
    let mut k = 0;
    while k < 8 {
        if k < e.len && w.head[i][k] != e.b[k] {
            return false;
        }
        k += 1;
    }
    true
}

/// one concrete colour pair and failure point; data of 1-2 symbolic bytes; any prefix of the data accepted
fn colored(fgi: u8, bgi: u8, _via_trait: bool, fail_at: usize) {
    let data_buf = [vk::any_u8(), vk::any_u8()];
    let dlen = vk::any_usize_in(1, 2);
    let data = &data_buf[..dlen];
    let mut w = W { calls: 0, ptr: [0; MAXW], len: [0; MAXW], head: [[0; 8]; MAXW], fail_at, data_ptr: data.as_ptr() as usize, data_call: 99, data_taken: 0 };
    let r = write_colored(&mut w, opt_color(fgi), opt_color(bgi), data);
    let styled = fgi < 16 || bgi < 16;
    // expected call sequence
    let mut want = 0usize;
    if fail_at >= want && fgi < 16 {
        let mut e = Exp { b: [0; 8], len: 0 };
        let _ = anstyle::Style::new().fg_color(Some(ansi_from_index(fgi).into())).write_to(&mut e);
        assert!(call_is(&w, want, &e), "the foreground code comes first");
    }
    if fgi < 16 { want += 1; }
    if fail_at >= want && bgi < 16 && (fail_at >= want) && w.calls > want {
        let mut e = Exp { b: [0; 8], len: 0 };
        let _ = anstyle::Style::new().bg_color(Some(ansi_from_index(bgi).into())).write_to(&mut e);
        assert!(call_is(&w, want, &e), "the background code follows the foreground code");
    }
    if bgi < 16 { want += 1; }
    let data_idx = want;
    match &r {
        Ok(n) => {
            assert!(fail_at >= w.calls, "a coloured write succeeds only if no inner write failed");
            assert!(w.data_call == data_idx && w.ptr[data_idx] == data.as_ptr() as usize && w.len[data_idx] == dlen, "the data bytes are handed over unchanged, in one write, right after the codes (no code at all when neither colour is given)");
            assert!(*n == w.data_taken, "a coloured write returns the number of data bytes the writer accepted");
            if styled {
                let mut e = Exp { b: [0; 8], len: 0 };
                let _ = anstyle::Style::new().bold().write_reset_to(&mut e);
                assert!(w.calls == data_idx + 2 && call_is(&w, data_idx + 1, &e), "the data is followed by exactly one reset when a colour was given");
            } else {
                assert!(w.calls == 1, "nothing but the data is written when neither colour is given");
            }
        }
        Err(e) => {
            assert!(e.kind() == ErrorKind::Other && fail_at < w.calls && w.calls == fail_at + 1, "an inner error is returned with its kind and nothing is written after it");
        }
    }
    if fail_at < w.calls {
        assert!(r.is_err(), "an inner error is never turned into success");
    }
    if fail_at > 6 {
        vk::vk_cover!(r.is_ok() && w.data_taken < dlen, "short data write");
    } else {
        vk::vk_cover!(r.is_err(), "error path");
    }
}

// Colour pairs and the failing inner call are concrete per harness (symbolic pairs or a symbolic
// failure point through core::fmt::write do not finish in CBMC, measured); the data bytes and the
// accepted prefix of the data stay symbolic.  The bytes of every colour code come from
// AnsiColor::render_fg/render_bg, verified for all 16 colours in C05 (render_buffer_ansi16).
macro_rules! case {
    ($name:ident, $fg:expr, $bg:expr, $tr:expr, $fail:expr) => {
        // the bound covers std's write_all loop (whose trip count CBMC cannot always fold) and the
        // 12-entry effect table walked by Style::write_to
        #[cfg_attr(kani, kani::proof, kani::unwind(14))]
        #[cfg_attr(not(kani), test)]
        fn $name() {
            colored($fg, $bg, $tr, $fail);
        }
    };
}

case!(wincon_ansi_fg_only, 1, 16, false, 99);
case!(wincon_ansi_bg_only, 16, 12, false, 99);
case!(wincon_ansi_both, 15, 0, false, 99);
case!(wincon_ansi_none, 16, 16, false, 99);
case!(wincon_ansi_fail_first, 15, 0, false, 0);
case!(wincon_ansi_fail_data, 15, 0, false, 2);
case!(wincon_ansi_fail_reset, 15, 0, false, 3);
