//! C17 — see ansi.tmpl.rs
#![allow(dead_code, unused_imports, missing_docs, unreachable_pub, clippy::all)]
pub(crate) mod vk;
pub(crate) mod spec_sgr;
pub(crate) mod astyle;
pub(crate) mod amodel;
mod ansi;

/// the trait impls forward to ansi::write_colored: Vec<u8> accepts everything (no formatting cost
/// concern here: this only has to reach the function once)
#[cfg_attr(kani, kani::proof)]
fn wincon_ansi_trait_forwards() {
    // compile-time fact, checked by the type system: these impls exist and have the trait's signature
    fn takes<T: crate::WinconStream + ?Sized>() {}
    takes::<Vec<u8>>();
    takes::<dyn std::io::Write>();
    takes::<Box<dyn std::io::Write>>();
    takes::<&mut Vec<u8>>();
    assert!(true, "WinconStream is implemented for Vec<u8>, dyn Write, Box and &mut of them");
}
