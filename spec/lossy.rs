// S6 — lossy colour conversion: red-mean weighted distance and "first argmin".
//
// Distance: the "low-cost approximation" of https://www.compuphase.com/cmetric.htm
// (the source the crate cites),
//     dC^2 = (2 + rm/256) dR^2 + 4 dG^2 + (2 + (255 - rm)/256) dB^2,   rm = (R1+R2)/2,
// scaled by 512 so that it is an exact integer without the intermediate
// division:  (1024 + rs) dR^2 + 2048 dG^2 + (1534 - rs) dB^2,   rs = R1+R2.
// Scaling by a positive constant and dropping the square root do not change
// any comparison, so nearest/ties are those of the published metric.

/// weight of the green term at scale 512: 4 * 512
pub open spec fn SD_GREEN_WEIGHT() -> int { 2048 }

pub open spec fn sd(c1: RgbColor, c2: RgbColor) -> int {
    let rs = c1.0 as int + c2.0 as int;
    let dr = c1.0 as int - c2.0 as int;
    let dg = c1.1 as int - c2.1 as int;
    let db = c1.2 as int - c2.2 as int;
    (1024 + rs) * (dr * dr) + SD_GREEN_WEIGHT() * (dg * dg) + (1534 - rs) * (db * db)
}

/// `i` is the lowest index in lo..hi whose entry is nearest to `c`.
//@verus-only-begin
pub open spec fn first_argmin(s: Seq<RgbColor>, c: RgbColor, lo: int, hi: int, i: int) -> bool {
    &&& lo <= i < hi
    &&& hi <= s.len()
    &&& forall|j: int| lo <= j < hi ==> sd(c, s[i]) <= sd(c, #[trigger] s[j])
    &&& forall|j: int| lo <= j < i ==> sd(c, s[i]) < sd(c, #[trigger] s[j])
}

//@verus-only-end
pub open spec fn ansi_index(c: AnsiColor) -> int {
    match c {
        AnsiColor::Black => 0, AnsiColor::Red => 1, AnsiColor::Green => 2, AnsiColor::Yellow => 3,
        AnsiColor::Blue => 4, AnsiColor::Magenta => 5, AnsiColor::Cyan => 6, AnsiColor::White => 7,
        AnsiColor::BrightBlack => 8, AnsiColor::BrightRed => 9, AnsiColor::BrightGreen => 10,
        AnsiColor::BrightYellow => 11, AnsiColor::BrightBlue => 12, AnsiColor::BrightMagenta => 13,
        AnsiColor::BrightCyan => 14, AnsiColor::BrightWhite => 15,
    }
}

pub open spec fn ansi_of(i: int) -> AnsiColor {
    if i == 0 { AnsiColor::Black } else if i == 1 { AnsiColor::Red } else if i == 2 { AnsiColor::Green }
    else if i == 3 { AnsiColor::Yellow } else if i == 4 { AnsiColor::Blue } else if i == 5 { AnsiColor::Magenta }
    else if i == 6 { AnsiColor::Cyan } else if i == 7 { AnsiColor::White } else if i == 8 { AnsiColor::BrightBlack }
    else if i == 9 { AnsiColor::BrightRed } else if i == 10 { AnsiColor::BrightGreen } else if i == 11 { AnsiColor::BrightYellow }
    else if i == 12 { AnsiColor::BrightBlue } else if i == 13 { AnsiColor::BrightMagenta } else if i == 14 { AnsiColor::BrightCyan }
    else { AnsiColor::BrightWhite }
}

pub proof fn lemma_sq_bound(d: int)
    requires -255 <= d <= 255,
    ensures 0 <= d * d <= 65025,
{
    assert(0 <= d * d <= 65025) by (nonlinear_arith) requires -255 <= d <= 255;
}

pub proof fn lemma_wmul(w: int, d: int)
    requires 0 <= w <= 2048, -255 <= d <= 255,
    ensures -522240 <= w * d <= 522240, (w * d) * d == w * (d * d), 0 <= w * (d * d) <= 2048 * 65025,
{
    assert(-522240 <= w * d <= 522240) by (nonlinear_arith) requires 0 <= w <= 2048, -255 <= d <= 255;
    assert((w * d) * d == w * (d * d)) by (nonlinear_arith);
    lemma_sq_bound(d);
    assert(0 <= w * (d * d) <= 2048 * 65025) by (nonlinear_arith) requires 0 <= w <= 2048, 0 <= d * d <= 65025;
}

pub proof fn lemma_sd_nonneg(a: RgbColor, b: RgbColor)
    ensures sd(a, b) >= 0,
{
    let rs = a.0 as int + b.0 as int;
    lemma_sq_bound(a.0 as int - b.0 as int);
    lemma_sq_bound(a.1 as int - b.1 as int);
    lemma_sq_bound(a.2 as int - b.2 as int);
    lemma_wmul(1024 + rs, a.0 as int - b.0 as int);
    lemma_wmul(1534 - rs, a.2 as int - b.2 as int);
    lemma_wmul(SD_GREEN_WEIGHT(), a.1 as int - b.1 as int);
}

pub proof fn lemma_sd_zero_iff(a: RgbColor, b: RgbColor)
    ensures sd(a, b) == 0 <==> a == b,
{
    let rs = a.0 as int + b.0 as int;
    let dr = a.0 as int - b.0 as int;
    let dg = a.1 as int - b.1 as int;
    let db = a.2 as int - b.2 as int;
    lemma_wmul(1024 + rs, dr);
    lemma_wmul(1534 - rs, db);
    lemma_wmul(SD_GREEN_WEIGHT(), dg);
    assert(dr != 0 ==> dr * dr >= 1) by (nonlinear_arith);
    assert(dg != 0 ==> dg * dg >= 1) by (nonlinear_arith);
    assert(db != 0 ==> db * db >= 1) by (nonlinear_arith);
    assert(dr * dr >= 1 ==> (1024 + rs) * (dr * dr) >= 1024) by (nonlinear_arith) requires rs >= 0;
    assert(dg * dg >= 1 ==> SD_GREEN_WEIGHT() * (dg * dg) >= 1024) by (nonlinear_arith) requires SD_GREEN_WEIGHT() >= 1024;
    assert(db * db >= 1 ==> (1534 - rs) * (db * db) >= 1024) by (nonlinear_arith) requires rs <= 510;
    assert(dr == 0 ==> (1024 + rs) * (dr * dr) == 0) by (nonlinear_arith);
    assert(dg == 0 ==> SD_GREEN_WEIGHT() * (dg * dg) == 0) by (nonlinear_arith);
    assert(db == 0 ==> (1534 - rs) * (db * db) == 0) by (nonlinear_arith);
    if a == b {
        assert(dr == 0 && dg == 0 && db == 0);
    } else {
        assert(dr != 0 || dg != 0 || db != 0);
    }
}
