// S2 — the parser model: Paul Williams' DEC ANSI parser actions with the crate's
// documented limits (32 parameters incl. sub-parameters, 2 intermediates, 16 OSC
// parameters, values saturating at 65535) over an abstract state.  Verus only.
//@verus-only-begin

pub enum Event {
    Print(char),
    Execute(u8),
    Hook(Seq<Seq<u16>>, Seq<u8>, bool, u8),
    Put(u8),
    Unhook,
    Osc(Seq<Seq<u8>>, bool),
    Csi(Seq<Seq<u16>>, Seq<u8>, bool, u8),
    Esc(Seq<u8>, bool, u8),
}

pub struct MP<C> {
    pub st: State,
    /// collected intermediates (at most 2)
    pub inter: Seq<u8>,
    /// overflow flag
    pub ignoring: bool,
    /// closed parameters, each with its sub-parameters
    pub closed: Seq<Seq<u16>>,
    /// sub-parameters of the parameter still being collected
    pub open: Seq<u16>,
    /// value being accumulated
    pub param: u16,
    /// OSC payload without separators, and the bounds of the closed OSC parameters
    pub osc_raw: Seq<u8>,
    pub osc_bounds: Seq<(int, int)>,
    /// UTF-8 accumulator (abstract)
    pub utf8: C,
}

/// field-wise extensional equality of model states
pub open spec fn mp_ext_eq<C>(a: MP<C>, b: MP<C>) -> bool {
    &&& a.st == b.st
    &&& a.inter =~= b.inter
    &&& a.ignoring == b.ignoring
    &&& a.closed =~~= b.closed
    &&& a.open =~= b.open
    &&& a.param == b.param
    &&& a.osc_raw =~= b.osc_raw
    &&& a.osc_bounds =~= b.osc_bounds
    &&& a.utf8 == b.utf8
}

pub proof fn lemma_mp_ext<C>(a: MP<C>, b: MP<C>)
    requires mp_ext_eq(a, b),
    ensures a == b,
{
}

pub open spec const M_MAX_PARAMS: int = 32;
pub open spec const M_MAX_INTER: int = 2;
pub open spec const M_MAX_OSC: int = 16;

pub open spec fn m_count(closed: Seq<Seq<u16>>) -> int
    decreases closed.len()
{
    if closed.len() == 0 { 0 } else { closed[0].len() + m_count(closed.drop_first()) }
}

pub proof fn lemma_count_push(closed: Seq<Seq<u16>>, y: Seq<u16>)
    ensures m_count(closed.push(y)) == m_count(closed) + y.len(),
    decreases closed.len()
{
    if closed.len() == 0 {
        assert(closed.push(y).drop_first() =~= Seq::<Seq<u16>>::empty());
        assert(m_count(closed.push(y).drop_first()) == 0);
    } else {
        assert(closed.push(y).drop_first() =~= closed.drop_first().push(y));
        lemma_count_push(closed.drop_first(), y);
    }
}

/// values stored so far (parameters and sub-parameters share one budget of 32)
pub open spec fn m_len<C>(m: MP<C>) -> int {
    m_count(m.closed) + m.open.len()
}

/// the parameter list a dispatch reports
pub open spec fn m_params_view<C>(m: MP<C>) -> Seq<Seq<u16>> {
    if m.open.len() > 0 { m.closed.push(m.open) } else { m.closed }
}

pub open spec fn m_osc_view<C>(m: MP<C>) -> Seq<Seq<u8>> {
    Seq::new(m.osc_bounds.len(), |i: int| m.osc_raw.subrange(m.osc_bounds[i].0, m.osc_bounds[i].1))
}

pub open spec fn sat_digit(p: u16, d: int) -> u16 {
    let x = if p as int * 10 > 65535 { 65535int } else { p as int * 10 };
    if x + d > 65535 { 65535u16 } else { (x + d) as u16 }
}

/// finish the pending parameter for a dispatch (CSI final byte / DCS hook)
pub open spec fn m_finish_params<C>(m: MP<C>) -> MP<C> {
    if m_len(m) == M_MAX_PARAMS {
        MP { ignoring: true, ..m }
    } else {
        MP { closed: m.closed.push(m.open.push(m.param)), open: Seq::empty(), ..m }
    }
}

pub open spec fn m_osc_close<C>(m: MP<C>) -> MP<C> {
    let begin = if m.osc_bounds.len() == 0 { 0 } else { m.osc_bounds.last().1 };
    MP { osc_bounds: m.osc_bounds.push((begin, m.osc_raw.len() as int)), ..m }
}

/// `osc_cap`: payload capacity (None = unbounded, Some(1024) without heap)
pub open spec fn model_action<C: CharAccumulator>(m: MP<C>, a: Action, byte: u8, osc_cap: Option<int>) -> (MP<C>, Seq<Event>) {
    match a {
        Action::Print => (m, seq![Event::Print(byte as char)]),
        Action::Execute => (m, seq![Event::Execute(byte)]),
        Action::Hook => {
            let m2 = m_finish_params(m);
            (m2, seq![Event::Hook(m_params_view(m2), m2.inter, m2.ignoring, byte)])
        },
        Action::Put => (m, seq![Event::Put(byte)]),
        Action::OscStart => (MP { osc_raw: Seq::empty(), osc_bounds: Seq::empty(), ..m }, Seq::empty()),
        Action::OscPut => {
            if osc_cap.is_some() && m.osc_raw.len() >= osc_cap.unwrap() {
                (m, Seq::empty())
            } else if byte == 0x3b {
                if m.osc_bounds.len() == M_MAX_OSC { (m, Seq::empty()) } else { (m_osc_close(m), Seq::empty()) }
            } else {
                (MP { osc_raw: m.osc_raw.push(byte), ..m }, Seq::empty())
            }
        },
        Action::OscEnd => {
            let m2 = if m.osc_bounds.len() == M_MAX_OSC { m } else { m_osc_close(m) };
            (m2, seq![Event::Osc(m_osc_view(m2), byte == 0x07)])
        },
        Action::Unhook => (m, seq![Event::Unhook]),
        Action::CsiDispatch => {
            let m2 = m_finish_params(m);
            (m2, seq![Event::Csi(m_params_view(m2), m2.inter, m2.ignoring, byte)])
        },
        Action::EscDispatch => (m, seq![Event::Esc(m.inter, m.ignoring, byte)]),
        Action::Collect => {
            if m.inter.len() == M_MAX_INTER { (MP { ignoring: true, ..m }, Seq::empty()) }
            else { (MP { inter: m.inter.push(byte), ..m }, Seq::empty()) }
        },
        Action::Param => {
            if m_len(m) == M_MAX_PARAMS {
                (MP { ignoring: true, ..m }, Seq::empty())
            } else if byte == 0x3b {
                (MP { closed: m.closed.push(m.open.push(m.param)), open: Seq::empty(), param: 0, ..m }, Seq::empty())
            } else if byte == 0x3a {
                (MP { open: m.open.push(m.param), param: 0, ..m }, Seq::empty())
            } else {
                (MP { param: sat_digit(m.param, byte as int - 0x30), ..m }, Seq::empty())
            }
        },
        Action::Clear => (MP { inter: Seq::empty(), ignoring: false, param: 0, closed: Seq::empty(), open: Seq::empty(), ..m }, Seq::empty()),
        Action::BeginUtf8 => m_utf8(m, byte),
        Action::Ignore => (m, Seq::empty()),
        Action::Nop => (m, Seq::empty()),
    }
}

pub open spec fn m_utf8<C: CharAccumulator>(m: MP<C>, byte: u8) -> (MP<C>, Seq<Event>) {
    let r = m.utf8.spec_add(byte);
    match r.1 {
        Some(c) => (MP { utf8: r.0, st: State::Ground, ..m }, seq![Event::Print(c)]),
        None => (MP { utf8: r.0, ..m }, Seq::empty()),
    }
}

pub open spec fn m_then<C: CharAccumulator>(r: (MP<C>, Seq<Event>), a: Action, byte: u8, osc_cap: Option<int>) -> (MP<C>, Seq<Event>) {
    let n = model_action(r.0, a, byte, osc_cap);
    (n.0, r.1 + n.1)
}

/// exit action of the state being left
pub open spec fn m_exit<C: CharAccumulator>(m: MP<C>, byte: u8, osc_cap: Option<int>) -> (MP<C>, Seq<Event>) {
    let r0 = (m, Seq::<Event>::empty());
    if m.st == State::DcsPassthrough { m_then(r0, Action::Unhook, byte, osc_cap) }
    else if m.st == State::OscString { m_then(r0, Action::OscEnd, byte, osc_cap) }
    else { r0 }
}

/// transition action
pub open spec fn m_trans<C: CharAccumulator>(r1: (MP<C>, Seq<Event>), a: Action, byte: u8, osc_cap: Option<int>) -> (MP<C>, Seq<Event>) {
    if a == Action::Nop { r1 } else { m_then(r1, a, byte, osc_cap) }
}

/// entry action of the new state
pub open spec fn m_entry<C: CharAccumulator>(r2: (MP<C>, Seq<Event>), ns: State, byte: u8, osc_cap: Option<int>) -> (MP<C>, Seq<Event>) {
    if ns == State::CsiEntry || ns == State::DcsEntry || ns == State::Escape { m_then(r2, Action::Clear, byte, osc_cap) }
    else if ns == State::DcsPassthrough { m_then(r2, Action::Hook, byte, osc_cap) }
    else if ns == State::OscString { m_then(r2, Action::OscStart, byte, osc_cap) }
    else { r2 }
}

/// exit action, transition action, entry action, then the new state (Williams' ordering)
pub open spec fn model_transition<C: CharAccumulator>(m: MP<C>, ns: State, a: Action, byte: u8, osc_cap: Option<int>) -> (MP<C>, Seq<Event>) {
    let r3 = m_entry(m_trans(m_exit(m, byte, osc_cap), a, byte, osc_cap), ns, byte, osc_cap);
    (MP { st: ns, ..r3.0 }, r3.1)
}

/// S2: one input byte
pub open spec fn model_step<C: CharAccumulator>(m: MP<C>, byte: u8, osc_cap: Option<int>) -> (MP<C>, Seq<Event>) {
    if m.st == State::Utf8 {
        m_utf8(m, byte)
    } else {
        let t = vt(m.st, byte);
        if t.0 == State::Anywhere { model_action(m, t.1, byte, osc_cap) } else { model_transition(m, t.0, t.1, byte, osc_cap) }
    }
}
//@verus-only-end
