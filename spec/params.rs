// Params representation invariant and abstract view (Verus only).
// The doc comment "at the subparam positions the length will always be 0" is NOT
// used: `clear` leaves stale entries; only the jump chain is an invariant.
//@verus-only-begin

/// following the per-parameter lengths from `a` lands exactly on `b`
pub open spec fn chain_to(sub: Seq<u8>, a: int, b: int) -> bool
    decreases (b - a) + 256
{
    if a >= b { a == b }
    else if a < 0 || a >= sub.len() { false }
    else if sub[a] >= 1 { chain_to(sub, a + sub[a] as int, b) }
    else { false }
}

/// the parameters between positions a and b (a chain), each with its sub-parameters
pub open spec fn chain_view(sub: Seq<u8>, vals: Seq<u16>, a: int, b: int) -> Seq<Seq<u16>>
    decreases (b - a) + 256
{
    if a >= b || a < 0 || a >= sub.len() || sub[a] < 1 { Seq::empty() }
    else { seq![vals.subrange(a, a + sub[a] as int)] + chain_view(sub, vals, a + sub[a] as int, b) }
}

pub proof fn lemma_chain_frame(s1: Seq<u8>, s2: Seq<u8>, a: int, b: int)
    requires s1.len() == s2.len(), forall|i: int| a <= i < b && 0 <= i < s1.len() ==> s1[i] == s2[i],
    ensures chain_to(s1, a, b) == chain_to(s2, a, b),
    decreases (b - a) + 256
{
    if a >= b { } else if a < 0 || a >= s1.len() { } else if s1[a] >= 1 { lemma_chain_frame(s1, s2, a + s1[a] as int, b); }
}

pub proof fn lemma_chain_le(s: Seq<u8>, a: int, b: int)
    requires chain_to(s, a, b),
    ensures a <= b,
{ }

pub proof fn lemma_chain_append(s: Seq<u8>, a: int, m: int, b: int)
    requires chain_to(s, a, m), chain_to(s, m, b),
    ensures chain_to(s, a, b),
    decreases (m - a) + 256
{
    if a >= m { } else { lemma_chain_le(s, m, b); lemma_chain_append(s, a + s[a] as int, m, b); }
}

pub proof fn lemma_view_frame(s1: Seq<u8>, v1: Seq<u16>, s2: Seq<u8>, v2: Seq<u16>, a: int, b: int)
    requires
        s1.len() == s2.len(), v1.len() == v2.len(), b <= v1.len(), chain_to(s1, a, b),
        forall|i: int| a <= i < b && 0 <= i < s1.len() ==> s1[i] == s2[i],
        forall|i: int| a <= i < b && 0 <= i < v1.len() ==> v1[i] == v2[i],
    ensures chain_view(s1, v1, a, b) == chain_view(s2, v2, a, b),
    decreases (b - a) + 256
{
    if a >= b || a < 0 || a >= s1.len() || s1[a] < 1 {
    } else {
        let n = a + s1[a] as int;
        lemma_chain_le(s1, n, b);
        lemma_view_frame(s1, v1, s2, v2, n, b);
        assert(v1.subrange(a, n) =~= v2.subrange(a, n));
    }
}

pub proof fn lemma_view_append(s: Seq<u8>, v: Seq<u16>, a: int, m: int, b: int)
    requires chain_to(s, a, m), chain_to(s, m, b),
    ensures chain_view(s, v, a, b) == chain_view(s, v, a, m) + chain_view(s, v, m, b),
    decreases (m - a) + 256
{
    lemma_chain_le(s, m, b);
    if a >= m {
        assert(chain_view(s, v, a, m) =~= Seq::<Seq<u16>>::empty());
        assert(chain_view(s, v, a, b) =~= Seq::<Seq<u16>>::empty() + chain_view(s, v, m, b));
    } else {
        let n = a + s[a] as int;
        lemma_view_append(s, v, n, m, b);
        lemma_chain_le(s, n, m);
        assert(chain_view(s, v, a, b) =~= seq![v.subrange(a, n)] + (chain_view(s, v, n, m) + chain_view(s, v, m, b)));
        assert(chain_view(s, v, a, m) =~= seq![v.subrange(a, n)] + chain_view(s, v, n, m));
    }
}

pub proof fn lemma_view_count(sub: Seq<u8>, vals: Seq<u16>, a: int, b: int)
    requires chain_to(sub, a, b), 0 <= a, b <= vals.len(),
    ensures m_count(chain_view(sub, vals, a, b)) == b - a,
    decreases (b - a) + 256
{
    if a >= b {
        assert(chain_view(sub, vals, a, b) =~= Seq::<Seq<u16>>::empty());
    } else {
        let n = a + sub[a] as int;
        lemma_chain_le(sub, n, b);
        lemma_view_count(sub, vals, n, b);
        let v = chain_view(sub, vals, a, b);
        assert(v =~= seq![vals.subrange(a, n)] + chain_view(sub, vals, n, b));
        assert(v.drop_first() =~= chain_view(sub, vals, n, b));
        assert(v[0] == vals.subrange(a, n));
    }
}
//@verus-only-end
