// S3 over a whole input: prefix-indexed model states, kept bytes, the one-call
// scan postcondition and the fold lemmas (Verus only: quantifiers and Seq).
//@verus-only-begin

/// model (state, accumulator) after the first `i` bytes of `b`
pub open spec fn ms(s0: State, u0: u8, b: Seq<u8>, i: int) -> (State, u8)
    decreases i
{
    if i <= 0 || i > b.len() { (s0, u0) }
    else {
        let p = ms(s0, u0, b, i - 1);
        let t = strip_step(p.0, p.1, b[i - 1]);
        (t.0, t.1)
    }
}

/// is byte `j` part of the visible text?
pub open spec fn kept(s0: State, u0: u8, b: Seq<u8>, j: int) -> bool {
    strip_step(ms(s0, u0, b, j).0, ms(s0, u0, b, j).1, b[j]).2
}

/// A character cut short is abandoned as soon as the offending byte is seen; the byte
/// itself may still be unconsumed.  Both states behave identically on that byte.
pub open spec fn settle(m: (State, u8), next: u8) -> (State, u8) {
    if m.0 == State::Utf8 && !sp_is_cont(next) { (State::Ground, 0u8) } else { m }
}

pub proof fn lemma_ms_unfold(s0: State, u0: u8, b: Seq<u8>, i: int)
    requires 0 < i <= b.len(),
    ensures ms(s0, u0, b, i) == ({
        let p = ms(s0, u0, b, i - 1);
        let t = strip_step(p.0, p.1, b[i - 1]);
        (t.0, t.1)
    }),
{
}

pub proof fn lemma_step_wf(s: State, u: u8, b: u8)
    requires strip_wf(s, u),
    ensures strip_wf(strip_step(s, u, b).0, strip_step(s, u, b).1),
{
    lemma_vt_facts(s, b);
    lemma_vt_facts(State::Ground, b);
}

pub proof fn lemma_ms_wf(s0: State, u0: u8, b: Seq<u8>, i: int)
    requires strip_wf(s0, u0),
    ensures strip_wf(ms(s0, u0, b, i).0, ms(s0, u0, b, i).1),
    decreases i
{
    if i <= 0 || i > b.len() {
    } else {
        lemma_ms_wf(s0, u0, b, i - 1);
        let p = ms(s0, u0, b, i - 1);
        lemma_step_wf(p.0, p.1, b[i - 1]);
    }
}

/// facts about S1 that the scan proofs use (all by unfolding `vt`)
pub proof fn lemma_vt_facts(s: State, b: u8)
    ensures
        vt(s, b).1 == Action::Execute ==> b != 0x20,
        vt(s, b).1 == Action::BeginUtf8 ==> s == State::Ground && 0xc2 <= b && b <= 0xf4 && vt(s, b).0 == State::Utf8 && u8_lead(b) != 0,
        vt(s, b).1 == Action::Print ==> s == State::Ground && vt(s, b).0 == State::Anywhere,
        vt(s, b).0 == State::Utf8 ==> vt(s, b).1 == Action::BeginUtf8,
        s != State::Anywhere ==> vt_next(s, b) != State::Anywhere,
        sp_printable(vt(s, b).1, b) ==> !sp_is_cont(b),
        sp_printable(vt(s, b).1, b) && vt(s, b).1 != Action::BeginUtf8 ==> b < 0x80 && vt(s, b).0 == State::Anywhere,
        sp_printable(vt(s, b).1, b) == ((vt(s, b).1 == Action::Print && b != 0x7f) || vt(s, b).1 == Action::BeginUtf8
            || (vt(s, b).1 == Action::Execute && sp_ascii_whitespace(b))),
{
    reveal(vt);
}

/// one step of the text model on a byte the scan takes / does not take
pub proof fn lemma_str_step_taken(s: State, ic: bool, b: u8)
    requires
        s != State::Anywhere, s != State::Utf8,
        sp_is_cont(b) ==> ic && s == State::Ground,
    ensures
        str_step(s, ic, b).2 == (sp_printable(vt(s, b).1, b) || sp_is_cont(b)),
        str_step(s, ic, b).2 ==> str_step(s, ic, b).0 == s && str_step(s, ic, b).1 == (b >= 0x80)
            && (s != State::Ground ==> b < 0x80),
{
    lemma_vt_facts(s, b);
}

/// the one-call contract of next_bytes: what was skipped, what is returned, what is left
pub open spec fn scan_post(s0: State, u0: u8, b0: Seq<u8>, rest: Seq<u8>, r: Option<Seq<u8>>,
                           fs: State, fu: u8, k: int, n: int) -> bool {
    &&& 0 <= k && 0 <= n && k + n <= b0.len()
    // nothing visible was skipped
    &&& (forall|j: int| 0 <= j < k ==> !kept(s0, u0, b0, j))
    // the piece is exactly the next maximal run of visible bytes, as a sub-slice of the input
    &&& (k < b0.len() ==> n > 0)
    &&& (forall|j: int| k <= j < k + n ==> kept(s0, u0, b0, j))
    &&& (k + n < b0.len() ==> !kept(s0, u0, b0, k + n))
    &&& rest == b0.subrange(k + n, b0.len() as int)
    &&& (n == 0 ==> r.is_none())
    &&& (n > 0 ==> r == Some(b0.subrange(k, k + n)))
    // the carried state is the model's state at the cut
    &&& (k + n == b0.len() ==> (fs, fu) == ms(s0, u0, b0, k + n))
    &&& (k + n < b0.len() ==> (fs, fu) == settle(ms(s0, u0, b0, k + n), b0[k + n]))
}

// ---- text API ----

/// necessary condition of UTF-8 validity, the only fact the scan needs: a continuation
/// byte is never first and never follows an ASCII byte
pub open spec fn cont_after_high(b: Seq<u8>) -> bool {
    forall|i: int| 0 <= i < b.len() && sp_is_cont(#[trigger] b[i]) ==> i > 0 && b[i - 1] >= 0x80
}

pub open spec fn mss(s0: State, b: Seq<u8>, i: int) -> (State, bool)
    decreases i
{
    if i <= 0 || i > b.len() { (s0, false) }
    else {
        let p = mss(s0, b, i - 1);
        let t = str_step(p.0, p.1, b[i - 1]);
        (t.0, t.1)
    }
}

pub open spec fn kept_str(s0: State, b: Seq<u8>, j: int) -> bool {
    str_step(mss(s0, b, j).0, mss(s0, b, j).1, b[j]).2
}

pub proof fn lemma_mss_unfold(s0: State, b: Seq<u8>, i: int)
    requires 0 < i <= b.len(),
    ensures mss(s0, b, i) == ({
        let p = mss(s0, b, i - 1);
        let t = str_step(p.0, p.1, b[i - 1]);
        (t.0, t.1)
    }),
{
}

pub proof fn lemma_mss_wf(s0: State, b: Seq<u8>, i: int)
    requires s0 != State::Anywhere, s0 != State::Utf8,
    ensures mss(s0, b, i).0 != State::Anywhere, mss(s0, b, i).0 != State::Utf8,
    decreases i
{
    if i <= 0 || i > b.len() {
    } else {
        lemma_mss_wf(s0, b, i - 1);
        lemma_vt_facts(mss(s0, b, i - 1).0, b[i - 1]);
    }
}

/// byte `j` is visible and leaves the text model in state `sk`
pub open spec fn taken_at(s0: State, b: Seq<u8>, j: int, sk: State) -> bool {
    kept_str(s0, b, j) && mss(s0, b, j + 1).0 == sk && (sk != State::Ground ==> b[j] < 0x80)
        && (mss(s0, b, j + 1).1 == (b[j] >= 0x80))
}

pub open spec fn run_taken(s0: State, b: Seq<u8>, lo: int, hi: int, sk: State) -> bool {
    forall|j: int| lo <= j < hi ==> #[trigger] taken_at(s0, b, j, sk)
}

pub open spec fn scan_post_str(s0: State, b0: Seq<u8>, rest: Seq<u8>, r: Option<Seq<u8>>, fs: State, k: int, n: int) -> bool {
    &&& 0 <= k && 0 <= n && k + n <= b0.len()
    &&& (forall|j: int| 0 <= j < k ==> !kept_str(s0, b0, j))
    &&& (k < b0.len() ==> n > 0)
    &&& (forall|j: int| k <= j < k + n ==> kept_str(s0, b0, j))
    &&& (k + n < b0.len() ==> !kept_str(s0, b0, k + n))
    &&& rest == b0.subrange(k + n, b0.len() as int)
    &&& (n == 0 ==> r.is_none())
    &&& (n > 0 ==> r == Some(b0.subrange(k, k + n)))
    &&& fs == mss(s0, b0, k + n).0
    // the piece starts on a character boundary (never on a continuation byte)
    &&& (n > 0 ==> !sp_is_cont(b0[k]))
    // and ends on one: it is followed by the end of the input or by a byte that is not a continuation byte
    &&& (k + n < b0.len() ==> !sp_is_cont(b0[k + n]))
}
//@verus-only-end
