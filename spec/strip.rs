// S3 / S5 — what "visible text" means, byte by byte.
//
// S5: UTF-8 accumulator abstracted to "how the rest of the character must look"
// (RFC 3629 / Unicode Table 3-7, well-formed byte sequences):
//   0 ground
//   1 one more continuation byte (80..BF)           2 two more     3 three more
//   4 after E0: A0..BF then 1     5 after ED: 80..9F then 1
//   6 after F0: 90..BF then 2     7 after F4: 80..8F then 2
// `u8_feed` is total (any byte in any state) and returns (state', character finished).
// A byte that cannot continue the character finishes it (as U+FFFD) — the byte is consumed.
//
// S3: the strip model.  One step per input byte over (parser state, accumulator):
// a byte is *kept* iff the VT parser model prints it (Print except DEL, every byte of a
// UTF-8 encoded character) or executes it and it is TAB, LF, FF or CR.
// A character cut short by a byte that is not a continuation byte is abandoned and that
// byte is processed as if the character had not been started (so an ESC or C0 control
// can never hide inside a malformed character).
//
// Dual-use text (Verus spec fn / plain Rust), see spec/vt.rs.

pub open spec fn sp_is_cont(b: u8) -> bool {
    0x80 <= b && b <= 0xbf
}

pub open spec fn sp_ws(b: u8) -> bool {
    b == 0x09 || b == 0x0a || b == 0x0c || b == 0x0d
}

/// ASCII whitespace in the sense of u8::is_ascii_whitespace (adds SPACE)
pub open spec fn sp_ascii_whitespace(b: u8) -> bool {
    sp_ws(b) || b == 0x20
}

pub open spec fn sp_printable(a: Action, b: u8) -> bool {
    (a == Action::Print && b != 0x7f) || a == Action::BeginUtf8 || (a == Action::Execute && sp_ws(b))
}

pub open spec fn u8_lead(b: u8) -> u8 {
    if 0xc2 <= b && b <= 0xdf { 1 }
    else if b == 0xe0 { 4 }
    else if b == 0xed { 5 }
    else if 0xe1 <= b && b <= 0xef { 2 }
    else if b == 0xf0 { 6 }
    else if 0xf1 <= b && b <= 0xf3 { 3 }
    else if b == 0xf4 { 7 }
    else { 0 }
}

pub open spec fn u8_feed(u: u8, b: u8) -> (u8, bool) {
    if u == 0 {
        if u8_lead(b) != 0 { (u8_lead(b), false) } else { (0, true) }
    } else if !sp_is_cont(b) {
        (0, true)
    } else if u == 1 {
        (0, true)
    } else if u == 2 {
        (1, false)
    } else if u == 3 {
        (2, false)
    } else if u == 4 {
        if 0xa0 <= b { (1, false) } else { (0, true) }
    } else if u == 5 {
        if b <= 0x9f { (1, false) } else { (0, true) }
    } else if u == 6 {
        if 0x90 <= b { (2, false) } else { (0, true) }
    } else if u == 7 {
        if b <= 0x8f { (2, false) } else { (0, true) }
    } else {
        (0, true)
    }
}

/// well-formed carried state: inside a character iff the accumulator holds a partial one
pub open spec fn strip_wf(s: State, u: u8) -> bool {
    s != State::Anywhere && u <= 7 && ((s == State::Utf8) == (u != 0))
}

/// state after the "anywhere = stay" convention
pub open spec fn vt_next(s: State, b: u8) -> State {
    if vt(s, b).0 == State::Anywhere { s } else { vt(s, b).0 }
}

/// S3 byte model: (state', accumulator', kept)
pub open spec fn strip_step(s: State, u: u8, b: u8) -> (State, u8, bool) {
    if s == State::Utf8 && sp_is_cont(b) {
        if u8_feed(u, b).1 { (State::Ground, 0, true) } else { (State::Utf8, u8_feed(u, b).0, true) }
    } else if s == State::Utf8 {
        // truncated character: abandoned, `b` handled from Ground
        strip_step_plain(State::Ground, b)
    } else {
        strip_step_plain(s, b)
    }
}

pub open spec fn strip_step_plain(s: State, b: u8) -> (State, u8, bool) {
    if vt(s, b).1 == Action::BeginUtf8 {
        (State::Utf8, u8_lead(b), true)
    } else {
        (vt_next(s, b), 0, sp_printable(vt(s, b).1, b))
    }
}

/// S3 text model (input is valid UTF-8, characters are never cut): multi-byte
/// characters are opaque — a lead byte met in Ground and the continuation bytes
/// that follow it are kept; `inchar` records "the previous byte was part of a
/// kept multi-byte character".  The parser state never is Utf8.
pub open spec fn str_step(s: State, inchar: bool, b: u8) -> (State, bool, bool) {
    if inchar && sp_is_cont(b) {
        (s, true, true)
    } else if vt(s, b).1 == Action::BeginUtf8 {
        (s, true, true)
    } else {
        (vt_next(s, b), false, sp_printable(vt(s, b).1, b))
    }
}
