// S1 — transition specification of the DEC ANSI parser (Paul Williams,
// vt100.net/emu/dec_ansi_parser) with the crate's documented deviations.
// Written from the diagram, NOT from table.rs / codegen.rs.
//
// Dual-use text: every function below is at once a Verus `spec fn` and (after
// the mechanical rewrite `pub open spec fn` -> `pub fn`) plain Rust for the
// Kani harnesses and native replay. Only if/else, comparisons, &&, ||, tuples
// and enum literals are used.
//
// Convention of the crate: the returned state `Anywhere` means "stay".
//
// Deviations (crate docs, lib.rs "Differences from original state machine"):
//  * Ground: 0xC2..=0xF4 begins a UTF-8 sequence (BeginUtf8, state Utf8)
//  * OSC strings accept 0x20..=0xFF as payload and are terminated by BEL
//  * 7-bit only: C1 bytes are not "anywhere" transitions. 0x9C still ends
//    DCS passthrough/ignore and SOS/PM/APC strings; Ground still executes the
//    C1 controls 0x80-0x8F, 0x91-0x9A, 0x9C (taken from the implementation:
//    the docs only say "some 8-bit codes are still supported").
//    Every other byte >= 0x80 is ignored: no action, no state change.

pub open spec fn vt_c0_exec(b: u8) -> bool {
    b <= 0x17 || b == 0x19 || (0x1c <= b && b <= 0x1f)
}

pub open spec fn vt_in(b: u8, lo: u8, hi: u8) -> bool {
    lo <= b && b <= hi
}

pub open spec fn vt_high(s: State, b: u8) -> (State, Action) {
    if s == State::Ground && vt_in(b, 0xc2, 0xf4) {
        (State::Utf8, Action::BeginUtf8)
    } else if s == State::Ground && (vt_in(b, 0x80, 0x8f) || vt_in(b, 0x91, 0x9a) || b == 0x9c) {
        (State::Anywhere, Action::Execute)
    } else if s == State::OscString {
        (State::Anywhere, Action::OscPut)
    } else if (s == State::DcsPassthrough || s == State::DcsIgnore || s == State::SosPmApcString) && b == 0x9c {
        (State::Ground, Action::Nop)
    } else {
        (State::Anywhere, Action::Nop)
    }
}

pub open spec fn vt_escape(b: u8) -> (State, Action) {
    if vt_c0_exec(b) { (State::Anywhere, Action::Execute) }
    else if b == 0x7f { (State::Anywhere, Action::Ignore) }
    else if vt_in(b, 0x20, 0x2f) { (State::EscapeIntermediate, Action::Collect) }
    else if b == 0x5b { (State::CsiEntry, Action::Nop) }
    else if b == 0x5d { (State::OscString, Action::Nop) }
    else if b == 0x50 { (State::DcsEntry, Action::Nop) }
    else if b == 0x58 || b == 0x5e || b == 0x5f { (State::SosPmApcString, Action::Nop) }
    else { (State::Ground, Action::EscDispatch) }
}

pub open spec fn vt_csi(s: State, b: u8) -> (State, Action) {
    if vt_c0_exec(b) { (State::Anywhere, Action::Execute) }
    else if b == 0x7f { (State::Anywhere, Action::Ignore) }
    else if s == State::CsiEntry {
        if vt_in(b, 0x20, 0x2f) { (State::CsiIntermediate, Action::Collect) }
        else if vt_in(b, 0x30, 0x3b) { (State::CsiParam, Action::Param) }
        else if vt_in(b, 0x3c, 0x3f) { (State::CsiParam, Action::Collect) }
        else { (State::Ground, Action::CsiDispatch) }
    } else if s == State::CsiParam {
        if vt_in(b, 0x20, 0x2f) { (State::CsiIntermediate, Action::Collect) }
        else if vt_in(b, 0x30, 0x3b) { (State::Anywhere, Action::Param) }
        else if vt_in(b, 0x3c, 0x3f) { (State::CsiIgnore, Action::Nop) }
        else { (State::Ground, Action::CsiDispatch) }
    } else if s == State::CsiIntermediate {
        if vt_in(b, 0x20, 0x2f) { (State::Anywhere, Action::Collect) }
        else if vt_in(b, 0x30, 0x3f) { (State::CsiIgnore, Action::Nop) }
        else { (State::Ground, Action::CsiDispatch) }
    } else {
        // CsiIgnore
        if vt_in(b, 0x20, 0x3f) { (State::Anywhere, Action::Ignore) }
        else { (State::Ground, Action::Nop) }
    }
}

pub open spec fn vt_dcs(s: State, b: u8) -> (State, Action) {
    if s == State::DcsPassthrough {
        if b == 0x7f { (State::Anywhere, Action::Ignore) } else { (State::Anywhere, Action::Put) }
    } else if s == State::DcsIgnore {
        (State::Anywhere, Action::Ignore)
    } else if vt_c0_exec(b) || b == 0x7f { (State::Anywhere, Action::Ignore) }
    else if s == State::DcsEntry {
        if vt_in(b, 0x20, 0x2f) { (State::DcsIntermediate, Action::Collect) }
        else if vt_in(b, 0x30, 0x3b) { (State::DcsParam, Action::Param) }
        else if vt_in(b, 0x3c, 0x3f) { (State::DcsParam, Action::Collect) }
        else { (State::DcsPassthrough, Action::Nop) }
    } else if s == State::DcsParam {
        if vt_in(b, 0x20, 0x2f) { (State::DcsIntermediate, Action::Collect) }
        else if vt_in(b, 0x30, 0x3b) { (State::Anywhere, Action::Param) }
        else if vt_in(b, 0x3c, 0x3f) { (State::DcsIgnore, Action::Nop) }
        else { (State::DcsPassthrough, Action::Nop) }
    } else {
        // DcsIntermediate
        if vt_in(b, 0x20, 0x2f) { (State::Anywhere, Action::Collect) }
        else if vt_in(b, 0x30, 0x3f) { (State::DcsIgnore, Action::Nop) }
        else { (State::DcsPassthrough, Action::Nop) }
    }
}

/// S1: `(next state or Anywhere for "stay", action)` for the current state and byte.
/// `Anywhere` and `Utf8` as *current* state are outside the table's domain
/// (Utf8 is handled out of band by the parser; Anywhere is never a current
/// state): the specification leaves the row empty — no action, no change.
pub open spec fn vt(s: State, b: u8) -> (State, Action) {
    if s == State::Anywhere {
        // the "anywhere" row itself
        if b == 0x18 || b == 0x1a { (State::Ground, Action::Execute) }
        else if b == 0x1b { (State::Escape, Action::Nop) }
        else { (State::Anywhere, Action::Nop) }
    } else if b == 0x18 || b == 0x1a {
        (State::Ground, Action::Execute)
    } else if b == 0x1b {
        (State::Escape, Action::Nop)
    } else if s == State::Utf8 {
        (State::Anywhere, Action::Nop)
    } else if b >= 0x80 {
        vt_high(s, b)
    } else if s == State::Ground {
        if vt_c0_exec(b) { (State::Anywhere, Action::Execute) } else { (State::Anywhere, Action::Print) }
    } else if s == State::Escape {
        vt_escape(b)
    } else if s == State::EscapeIntermediate {
        if vt_c0_exec(b) { (State::Anywhere, Action::Execute) }
        else if vt_in(b, 0x20, 0x2f) { (State::Anywhere, Action::Collect) }
        else if b == 0x7f { (State::Anywhere, Action::Ignore) }
        else { (State::Ground, Action::EscDispatch) }
    } else if s == State::CsiEntry || s == State::CsiParam || s == State::CsiIntermediate || s == State::CsiIgnore {
        vt_csi(s, b)
    } else if s == State::DcsEntry || s == State::DcsParam || s == State::DcsIntermediate
        || s == State::DcsPassthrough || s == State::DcsIgnore {
        vt_dcs(s, b)
    } else if s == State::SosPmApcString {
        (State::Anywhere, Action::Ignore)
    } else {
        // OscString
        if b == 0x07 { (State::Ground, Action::Nop) }
        else if vt_c0_exec(b) { (State::Anywhere, Action::Ignore) }
        else { (State::Anywhere, Action::OscPut) }
    }
}
