// S4 — SGR semantics (ECMA-48 8.3.117, xterm ctlseqs "Character Attributes",
// ITU T.416 colon forms, kitty/VTE underline styles 4:n).  Executable
// specification (plain Rust, no_std-friendly) used by the Kani harnesses and by
// native replay as the *oracle*; it is written from the standards, not from
// the crate.
//
// Model of the terminal's graphic rendition state.  Effects are a 12-bit set
// in the declaration order of anstyle::Effects (BOLD=bit 0 ... STRIKETHROUGH=bit 11).
// Underline kinds are independent bits, as in anstyle::Effects (DESIGN.md C05).

pub const E_BOLD: u16 = 1 << 0;
pub const E_DIMMED: u16 = 1 << 1;
pub const E_ITALIC: u16 = 1 << 2;
pub const E_UNDERLINE: u16 = 1 << 3;
pub const E_DOUBLE_UNDERLINE: u16 = 1 << 4;
pub const E_CURLY_UNDERLINE: u16 = 1 << 5;
pub const E_DOTTED_UNDERLINE: u16 = 1 << 6;
pub const E_DASHED_UNDERLINE: u16 = 1 << 7;
pub const E_BLINK: u16 = 1 << 8;
pub const E_INVERT: u16 = 1 << 9;
pub const E_HIDDEN: u16 = 1 << 10;
pub const E_STRIKETHROUGH: u16 = 1 << 11;
pub const E_ALL_UNDERLINES: u16 = E_UNDERLINE | E_DOUBLE_UNDERLINE | E_CURLY_UNDERLINE | E_DOTTED_UNDERLINE | E_DASHED_UNDERLINE;

#[derive(Copy, Clone, PartialEq, Eq, Debug)]
pub enum MColor {
    Default,
    /// 16-colour palette, 0..=7 normal, 8..=15 bright
    Ansi(u8),
    /// 256-colour palette index
    Idx(u8),
    Rgb(u8, u8, u8),
}

#[derive(Copy, Clone, PartialEq, Eq, Debug)]
pub struct MStyle {
    pub fg: MColor,
    pub bg: MColor,
    pub ul: MColor,
    pub eff: u16,
}

pub const M_DEFAULT: MStyle = MStyle { fg: MColor::Default, bg: MColor::Default, ul: MColor::Default, eff: 0 };

pub const MAXP: usize = 32;

/// One CSI parameter list: values, and for each value whether it is attached
/// to the previous one by ':' (a sub-parameter).
#[derive(Copy, Clone)]
pub struct MParams {
    pub vals: [u16; MAXP],
    pub colon: [bool; MAXP],
    pub n: usize,
}

pub const M_NOPARAMS: MParams = MParams { vals: [0; MAXP], colon: [false; MAXP], n: 0 };

/// Outcome classes of a parameter list with respect to what the standards fix.
#[derive(Copy, Clone, PartialEq, Eq, Debug)]
pub enum Spec {
    /// every group is well-formed and has a meaning fixed by the standards
    Defined,
    /// contains a group whose effect the standards (or the property statement) leave open
    Open,
}

fn set_color(s: &mut MStyle, target: u16, c: MColor) {
    if target == 38 {
        s.fg = c;
    } else if target == 48 {
        s.bg = c;
    } else {
        s.ul = c;
    }
}

/// Apply one SGR parameter list to a style.  Returns the class; when `Open`
/// the returned style is meaningless.
///
/// `unsupported(code)`: single codes outside the statement of property C07
/// (5, 6, 22-29, 59 ...) are classified Open by the *callers that check the
/// extractor*; the rendering round-trip (C05) never emits them.
pub fn sgr_apply(style: MStyle, p: &MParams) -> (MStyle, Spec) {
    let mut s = style;
    if p.n == 0 {
        // CSI m == CSI 0 m
        return (M_DEFAULT, Spec::Defined);
    }
    let mut i = 0;
    while i < p.n {
        let v = p.vals[i];
        if p.colon[i] {
            // stray sub-parameter without a leading code
            return (s, Spec::Open);
        }
        // sub-parameters attached with ':'
        let mut j = i + 1;
        while j < p.n && p.colon[j] {
            j += 1;
        }
        let nsub = j - i - 1;
        if nsub > 0 {
            if v == 4 {
                if nsub != 1 {
                    return (s, Spec::Open);
                }
                let k = p.vals[i + 1];
                // entry state must not hold another underline kind (single-valued
                // attribute in a terminal, independent bits in anstyle: only the
                // intersection of both readings is specified)
                let target = if k == 0 { 0 } else if k == 1 { E_UNDERLINE } else if k == 2 { E_DOUBLE_UNDERLINE }
                    else if k == 3 { E_CURLY_UNDERLINE } else if k == 4 { E_DOTTED_UNDERLINE }
                    else if k == 5 { E_DASHED_UNDERLINE } else { return (s, Spec::Open) };
                if s.eff & E_ALL_UNDERLINES & !target != 0 {
                    return (s, Spec::Open);
                }
                s.eff = (s.eff & !E_ALL_UNDERLINES) | target;
            } else if v == 38 || v == 48 || v == 58 {
                let kind = p.vals[i + 1];
                if kind == 5 && nsub == 2 {
                    if p.vals[i + 2] > 255 {
                        return (s, Spec::Open);
                    }
                    set_color(&mut s, v, MColor::Idx(p.vals[i + 2] as u8));
                } else if kind == 2 && nsub == 4 {
                    if p.vals[i + 2] > 255 || p.vals[i + 3] > 255 || p.vals[i + 4] > 255 {
                        return (s, Spec::Open);
                    }
                    set_color(&mut s, v, MColor::Rgb(p.vals[i + 2] as u8, p.vals[i + 3] as u8, p.vals[i + 4] as u8));
                } else {
                    // T.416 with colour-space id, CMY, transparent ...: not fixed here
                    return (s, Spec::Open);
                }
            } else {
                return (s, Spec::Open);
            }
            i = j;
            continue;
        }
        // plain code (';' separated)
        if v == 38 || v == 48 || v == 58 {
            // xterm's legacy ';' spelling: 38;5;n  /  38;2;r;g;b
            if i + 1 >= p.n || p.colon[i + 1] {
                return (s, Spec::Open);
            }
            let kind = p.vals[i + 1];
            if kind == 5 {
                if i + 2 >= p.n || p.colon[i + 2] || (i + 3 < p.n && p.colon[i + 3]) || p.vals[i + 2] > 255 {
                    return (s, Spec::Open);
                }
                set_color(&mut s, v, MColor::Idx(p.vals[i + 2] as u8));
                i += 3;
            } else if kind == 2 {
                if i + 4 >= p.n || p.colon[i + 2] || p.colon[i + 3] || p.colon[i + 4] || (i + 5 < p.n && p.colon[i + 5])
                    || p.vals[i + 2] > 255 || p.vals[i + 3] > 255 || p.vals[i + 4] > 255
                {
                    return (s, Spec::Open);
                }
                set_color(&mut s, v, MColor::Rgb(p.vals[i + 2] as u8, p.vals[i + 3] as u8, p.vals[i + 4] as u8));
                i += 5;
            } else {
                return (s, Spec::Open);
            }
            continue;
        }
        if v == 0 {
            s = M_DEFAULT;
        } else if v == 1 {
            s.eff |= E_BOLD;
        } else if v == 2 {
            s.eff |= E_DIMMED;
        } else if v == 3 {
            s.eff |= E_ITALIC;
        } else if v == 4 {
            if s.eff & E_ALL_UNDERLINES & !E_UNDERLINE != 0 {
                return (s, Spec::Open);
            }
            s.eff |= E_UNDERLINE;
        } else if v == 21 {
            if s.eff & E_ALL_UNDERLINES & !E_DOUBLE_UNDERLINE != 0 {
                return (s, Spec::Open);
            }
            s.eff |= E_DOUBLE_UNDERLINE;
        } else if v == 5 {
            s.eff |= E_BLINK;
        } else if v == 7 {
            s.eff |= E_INVERT;
        } else if v == 8 {
            s.eff |= E_HIDDEN;
        } else if v == 9 {
            s.eff |= E_STRIKETHROUGH;
        } else if v == 22 {
            s.eff &= !(E_BOLD | E_DIMMED);
        } else if v == 23 {
            s.eff &= !E_ITALIC;
        } else if v == 24 {
            s.eff &= !E_ALL_UNDERLINES;
        } else if v == 25 {
            s.eff &= !E_BLINK;
        } else if v == 27 {
            s.eff &= !E_INVERT;
        } else if v == 28 {
            s.eff &= !E_HIDDEN;
        } else if v == 29 {
            s.eff &= !E_STRIKETHROUGH;
        } else if 30 <= v && v <= 37 {
            s.fg = MColor::Ansi((v - 30) as u8);
        } else if v == 39 {
            s.fg = MColor::Default;
        } else if 40 <= v && v <= 47 {
            s.bg = MColor::Ansi((v - 40) as u8);
        } else if v == 49 {
            s.bg = MColor::Default;
        } else if v == 59 {
            s.ul = MColor::Default;
        } else if 90 <= v && v <= 97 {
            s.fg = MColor::Ansi((v - 90 + 8) as u8);
        } else if 100 <= v && v <= 107 {
            s.bg = MColor::Ansi((v - 100 + 8) as u8);
        } else {
            // every other code (fonts 10-20, 6 rapid blink, 26, 50-57, 60-65, 73-75, >107 ...)
            // has no representation in the style type: changes nothing
        }
        i += 1;
    }
    (s, Spec::Defined)
}

/// Relaxed variant for the rendering round-trip (C05): underline kinds are
/// independent bits (each code sets its own bit), the only reading under which
/// all 4096 effect sets can round-trip.
pub fn sgr_apply_additive(style: MStyle, p: &MParams) -> (MStyle, Spec) {
    // a list that is a single underline code is handled additively, everything else as above
    if p.n == 1 && !p.colon[0] && (p.vals[0] == 4 || p.vals[0] == 21) {
        let mut s = style;
        s.eff |= if p.vals[0] == 4 { E_UNDERLINE } else { E_DOUBLE_UNDERLINE };
        return (s, Spec::Defined);
    }
    if p.n == 2 && !p.colon[0] && p.colon[1] && p.vals[0] == 4 && 1 <= p.vals[1] && p.vals[1] <= 5 {
        let mut s = style;
        let k = p.vals[1];
        s.eff |= if k == 1 { E_UNDERLINE } else if k == 2 { E_DOUBLE_UNDERLINE } else if k == 3 { E_CURLY_UNDERLINE }
            else if k == 4 { E_DOTTED_UNDERLINE } else { E_DASHED_UNDERLINE };
        return (s, Spec::Defined);
    }
    sgr_apply(style, p)
}

/// Result of interpreting a byte string that must consist solely of SGR sequences.
#[derive(Copy, Clone, PartialEq, Eq, Debug)]
pub enum Pure {
    /// pure SGR; final style
    Ok(MStyle),
    /// contains a byte that is not part of a `CSI params m` sequence
    NotPureSgr,
    /// pure SGR but some group is outside what the standards fix
    Open,
}

/// Interpret `bytes[..len]` from `start`.  Grammar accepted as "pure SGR":
///   ( ESC '[' [0-9;:]* 'm' )*
/// Values saturate at 65535 like every VT parser; at most 32 values per list.
pub fn sgr_bytes(start: MStyle, bytes: &[u8], len: usize, additive: bool) -> Pure {
    let mut s = start;
    let mut i = 0;
    let mut open = false;
    while i < len {
        if bytes[i] != 0x1b {
            return Pure::NotPureSgr;
        }
        i += 1;
        if i >= len || bytes[i] != b'[' {
            return Pure::NotPureSgr;
        }
        i += 1;
        let mut p = M_NOPARAMS;
        let mut cur: u16 = 0;
        let mut any = false;
        let mut next_colon = false;
        loop {
            if i >= len {
                return Pure::NotPureSgr;
            }
            let b = bytes[i];
            i += 1;
            if b'0' <= b && b <= b'9' {
                cur = cur.saturating_mul(10).saturating_add((b - b'0') as u16);
                any = true;
            } else if b == b';' || b == b':' {
                if p.n >= MAXP {
                    return Pure::NotPureSgr;
                }
                p.vals[p.n] = cur;
                p.colon[p.n] = next_colon;
                p.n += 1;
                cur = 0;
                any = true;
                next_colon = b == b':';
            } else if b == b'm' {
                if any {
                    if p.n >= MAXP {
                        return Pure::NotPureSgr;
                    }
                    p.vals[p.n] = cur;
                    p.colon[p.n] = next_colon;
                    p.n += 1;
                }
                break;
            } else {
                return Pure::NotPureSgr;
            }
        }
        let (ns, cls) = if additive { sgr_apply_additive(s, &p) } else { sgr_apply(s, &p) };
        if cls == Spec::Open {
            open = true;
        }
        s = ns;
    }
    if open {
        Pure::Open
    } else {
        Pure::Ok(s)
    }
}
