// S4 — SGR semantics (ECMA-48 8.3.117, xterm ctlseqs "Character Attributes",
// ITU T.416 colon forms, kitty/VTE underline styles 4:n).  Executable
// specification (plain Rust, no_std-friendly) used by the Kani harnesses and by
// native replay as the *oracle*; it is written from the standards, not from
// the crate.
//
// Model of the terminal's graphic rendition state.  Effects are a 12-bit set
// in the declaration order of anstyle::Effects (BOLD=bit 0 ... STRIKETHROUGH=bit 11).
// Underline kinds are independent bits, as in anstyle::Effects (DESIGN.md C05).

pub const E_BOLD: u16 = 1 << 0;
pub const E_DIMMED: u16 = 1 << 1;
pub const E_ITALIC: u16 = 1 << 2;
pub const E_UNDERLINE: u16 = 1 << 3;
pub const E_DOUBLE_UNDERLINE: u16 = 1 << 4;
pub const E_CURLY_UNDERLINE: u16 = 1 << 5;
pub const E_DOTTED_UNDERLINE: u16 = 1 << 6;
pub const E_DASHED_UNDERLINE: u16 = 1 << 7;
pub const E_BLINK: u16 = 1 << 8;
pub const E_INVERT: u16 = 1 << 9;
pub const E_HIDDEN: u16 = 1 << 10;
pub const E_STRIKETHROUGH: u16 = 1 << 11;
pub const E_ALL_UNDERLINES: u16 = E_UNDERLINE | E_DOUBLE_UNDERLINE | E_CURLY_UNDERLINE | E_DOTTED_UNDERLINE | E_DASHED_UNDERLINE;

#[derive(Copy, Clone, PartialEq, Eq, Debug)]
pub enum MColor {
    Default,
    /// 16-colour palette, 0..=7 normal, 8..=15 bright
    Ansi(u8),
    /// 256-colour palette index
    Idx(u8),
    Rgb(u8, u8, u8),
}

#[derive(Copy, Clone, PartialEq, Eq, Debug)]
pub struct MStyle {
    pub fg: MColor,
    pub bg: MColor,
    pub ul: MColor,
    pub eff: u16,
}

pub const M_DEFAULT: MStyle = MStyle { fg: MColor::Default, bg: MColor::Default, ul: MColor::Default, eff: 0 };

pub const MAXP: usize = 10;

/// One CSI parameter list: values, and for each value whether it is attached
/// to the previous one by ':' (a sub-parameter).  (MAXP = 10 values: enough for every
/// list the harnesses build or the crate renders; longer lists are classified Open.)
#[derive(Copy, Clone)]
pub struct MParams {
    pub vals: [u16; MAXP],
    pub colon: [bool; MAXP],
    pub n: usize,
}

pub const M_NOPARAMS: MParams = MParams { vals: [0; MAXP], colon: [false; MAXP], n: 0 };

/// Outcome classes of a parameter list with respect to what the standards fix.
#[derive(Copy, Clone, PartialEq, Eq, Debug)]
pub enum Spec {
    /// every group is well-formed and has a meaning fixed by the standards
    Defined,
    /// contains a group whose effect the standards (or the property statement) leave open
    Open,
}

fn set_color(s: &mut MStyle, target: u16, c: MColor) {
    if target == 38 {
        s.fg = c;
    } else if target == 48 {
        s.bg = c;
    } else {
        s.ul = c;
    }
}

fn underline_bit(k: u16) -> Option<u16> {
    if k == 0 { Some(0) } else if k == 1 { Some(E_UNDERLINE) } else if k == 2 { Some(E_DOUBLE_UNDERLINE) }
    else if k == 3 { Some(E_CURLY_UNDERLINE) } else if k == 4 { Some(E_DOTTED_UNDERLINE) }
    else if k == 5 { Some(E_DASHED_UNDERLINE) } else { None }
}

/// set the underline kind; `additive`: independent bits (rendering round-trip, C05), otherwise
/// only defined when no *other* kind is set (single-valued attribute of a terminal vs. independent
/// bits of anstyle: only the intersection of both readings is specified)
fn set_underline(s: &mut MStyle, target: u16, additive: bool) -> bool {
    if additive {
        if target == 0 { s.eff &= !E_ALL_UNDERLINES; } else { s.eff |= target; }
        return true;
    }
    if s.eff & E_ALL_UNDERLINES & !target != 0 {
        return false;
    }
    s.eff = (s.eff & !E_ALL_UNDERLINES) | target;
    true
}

fn single_code(s: &mut MStyle, v: u16, additive: bool) -> bool {
    if v == 0 { *s = M_DEFAULT; }
    else if v == 1 { s.eff |= E_BOLD; }
    else if v == 2 { s.eff |= E_DIMMED; }
    else if v == 3 { s.eff |= E_ITALIC; }
    else if v == 21 { return set_underline(s, E_DOUBLE_UNDERLINE, additive); }
    else if v == 5 { s.eff |= E_BLINK; }
    else if v == 7 { s.eff |= E_INVERT; }
    else if v == 8 { s.eff |= E_HIDDEN; }
    else if v == 9 { s.eff |= E_STRIKETHROUGH; }
    else if v == 22 { s.eff &= !(E_BOLD | E_DIMMED); }
    else if v == 23 { s.eff &= !E_ITALIC; }
    else if v == 24 { s.eff &= !E_ALL_UNDERLINES; }
    else if v == 25 { s.eff &= !E_BLINK; }
    else if v == 27 { s.eff &= !E_INVERT; }
    else if v == 28 { s.eff &= !E_HIDDEN; }
    else if v == 29 { s.eff &= !E_STRIKETHROUGH; }
    else if 30 <= v && v <= 37 { s.fg = MColor::Ansi((v - 30) as u8); }
    else if v == 39 { s.fg = MColor::Default; }
    else if 40 <= v && v <= 47 { s.bg = MColor::Ansi((v - 40) as u8); }
    else if v == 49 { s.bg = MColor::Default; }
    else if v == 59 { s.ul = MColor::Default; }
    else if 90 <= v && v <= 97 { s.fg = MColor::Ansi((v - 90 + 8) as u8); }
    else if 100 <= v && v <= 107 { s.bg = MColor::Ansi((v - 100 + 8) as u8); }
    // every other code (fonts 10-20, 6 rapid blink, 26, 50-57, 60-65, 73-75, >107 ...)
    // has no representation in the style type: changes nothing
    true
}

// group-parser positions (a flat scan: one pass over the values)
const G_NORMAL: u8 = 0;
const G_UNDER: u8 = 1; // seen `4`, waiting for an optional `:n`
const G_SUBDONE: u8 = 2; // a ':'-group is complete: another ':' value would be outside the standards
const G_EXT: u8 = 3; // seen 38/48/58, waiting for 5 or 2
const G_EXT5: u8 = 4; // waiting for the index
const G_EXT2: u8 = 5; // waiting for r, g, b

/// Apply one SGR parameter list to a style.  Returns the class; when `Open` the returned
/// style is meaningless.
pub fn sgr_apply_mode(style: MStyle, p: &MParams, additive: bool) -> (MStyle, Spec) {
    let mut s = style;
    if p.n == 0 {
        // CSI m == CSI 0 m
        return (M_DEFAULT, Spec::Defined);
    }
    if p.n > MAXP {
        return (s, Spec::Open);
    }
    let mut g = G_NORMAL;
    let mut target: u16 = 0;
    let mut colon_form = false;
    let mut rgb = [0u16; 3];
    let mut k = 0usize;
    let mut i = 0;
    while i < MAXP {
        if i < p.n {
            let v = p.vals[i];
            let c = p.colon[i];
            // close what a ';' closes
            if g == G_UNDER && !c {
                if !set_underline(&mut s, E_UNDERLINE, additive) { return (s, Spec::Open); }
                g = G_NORMAL;
            }
            if g == G_SUBDONE {
                if c { return (s, Spec::Open); }
                g = G_NORMAL;
            }
            if g == G_NORMAL {
                if c {
                    // stray sub-parameter without a leading code
                    return (s, Spec::Open);
                }
                if v == 38 || v == 48 || v == 58 {
                    target = v;
                    g = G_EXT;
                } else if v == 4 {
                    g = G_UNDER;
                } else if !single_code(&mut s, v, additive) {
                    return (s, Spec::Open);
                }
            } else if g == G_UNDER {
                // here c is true: `4:n`
                match underline_bit(v) {
                    Some(t) => { if !set_underline(&mut s, t, additive) { return (s, Spec::Open); } }
                    None => return (s, Spec::Open),
                }
                g = G_SUBDONE;
            } else if g == G_EXT {
                colon_form = c;
                if v == 5 { g = G_EXT5; } else if v == 2 { g = G_EXT2; k = 0; } else { return (s, Spec::Open); }
            } else if g == G_EXT5 {
                if c != colon_form || v > 255 { return (s, Spec::Open); }
                set_color(&mut s, target, MColor::Idx(v as u8));
                g = if colon_form { G_SUBDONE } else { G_NORMAL };
            } else {
                // G_EXT2
                if c != colon_form || v > 255 { return (s, Spec::Open); }
                rgb[k] = v;
                k += 1;
                if k == 3 {
                    set_color(&mut s, target, MColor::Rgb(rgb[0] as u8, rgb[1] as u8, rgb[2] as u8));
                    g = if colon_form { G_SUBDONE } else { G_NORMAL };
                }
            }
        }
        i += 1;
    }
    if g == G_UNDER {
        if !set_underline(&mut s, E_UNDERLINE, additive) { return (s, Spec::Open); }
    } else if g == G_EXT || g == G_EXT5 || g == G_EXT2 {
        // incomplete extended-colour group
        return (s, Spec::Open);
    }
    (s, Spec::Defined)
}

pub fn sgr_apply(style: MStyle, p: &MParams) -> (MStyle, Spec) {
    sgr_apply_mode(style, p, false)
}

/// Result of interpreting a byte string that must consist solely of SGR sequences.
#[derive(Copy, Clone, PartialEq, Eq, Debug)]
pub enum Pure {
    /// pure SGR; final style
    Ok(MStyle),
    /// contains a byte that is not part of a `CSI params m` sequence
    NotPureSgr,
    /// pure SGR but some group is outside what the standards fix
    Open,
}

/// Interpret `bytes[..len]` from `start` (one flat pass).  Grammar accepted as "pure SGR":
///   ( ESC '[' [0-9;:]* 'm' )*
/// Values saturate at 65535 like every VT parser.
pub fn sgr_bytes(start: MStyle, bytes: &[u8], len: usize, additive: bool) -> Pure {
    let mut s = start;
    let mut open = false;
    // 0: expect ESC, 1: expect '[', 2: inside the parameter string
    let mut st = 0u8;
    let mut p = M_NOPARAMS;
    let mut cur: u16 = 0;
    let mut any = false;
    let mut next_colon = false;
    let mut i = 0;
    while i < bytes.len() {
        if i < len {
            let b = bytes[i];
            if st == 0 {
                if b != 0x1b { return Pure::NotPureSgr; }
                st = 1;
            } else if st == 1 {
                if b != b'[' { return Pure::NotPureSgr; }
                st = 2;
                p = M_NOPARAMS;
                cur = 0;
                any = false;
                next_colon = false;
            } else if b'0' <= b && b <= b'9' {
                cur = cur.saturating_mul(10).saturating_add((b - b'0') as u16);
                any = true;
            } else if b == b';' || b == b':' || b == b'm' {
                if b != b'm' || any {
                    if p.n >= MAXP {
                        open = true;
                    } else {
                        p.vals[p.n] = cur;
                        p.colon[p.n] = next_colon;
                        p.n += 1;
                    }
                }
                cur = 0;
                any = true;
                next_colon = b == b':';
                if b == b'm' {
                    let (ns, cls) = sgr_apply_mode(s, &p, additive);
                    if cls == Spec::Open { open = true; }
                    s = ns;
                    st = 0;
                }
            } else {
                return Pure::NotPureSgr;
            }
        }
        i += 1;
    }
    if st != 0 {
        return Pure::NotPureSgr;
    }
    if open { Pure::Open } else { Pure::Ok(s) }
}
