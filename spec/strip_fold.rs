// L-fold: the visible text of an input, as a function of the carried state, and how it
// decomposes over pieces, chunks and prefixes.  Verus only.
//@verus-only-begin

/// visible bytes of b[i..] when started in (s0,u0) at position 0
pub open spec fn visible_from(s0: State, u0: u8, b: Seq<u8>, i: int) -> Seq<u8>
    decreases b.len() - i
{
    if i < 0 || i >= b.len() { Seq::empty() }
    else if kept(s0, u0, b, i) { seq![b[i]] + visible_from(s0, u0, b, i + 1) }
    else { visible_from(s0, u0, b, i + 1) }
}

pub open spec fn visible(s0: State, u0: u8, b: Seq<u8>) -> Seq<u8> {
    visible_from(s0, u0, b, 0)
}

/// model states do not depend on what follows (prefix closure) — this is why replaying the
/// consumed prefix of a buffer reproduces the state the first pass had at that point
pub proof fn lemma_ms_prefix(s0: State, u0: u8, b: Seq<u8>, m: int, i: int)
    requires 0 <= i <= m <= b.len(),
    ensures ms(s0, u0, b.subrange(0, m), i) == ms(s0, u0, b, i),
    decreases i
{
    if i > 0 {
        lemma_ms_prefix(s0, u0, b, m, i - 1);
        assert(b.subrange(0, m)[i - 1] == b[i - 1]);
    }
}

/// shifting: running on the suffix from the state reached after the prefix
pub proof fn lemma_ms_shift(s0: State, u0: u8, b: Seq<u8>, c: int, i: int)
    requires 0 <= c <= b.len(), 0 <= i <= b.len() - c,
    ensures ms(ms(s0, u0, b, c).0, ms(s0, u0, b, c).1, b.subrange(c, b.len() as int), i) == ms(s0, u0, b, c + i),
    decreases i
{
    if i > 0 {
        lemma_ms_shift(s0, u0, b, c, i - 1);
        assert(b.subrange(c, b.len() as int)[i - 1] == b[c + i - 1]);
    }
}

/// a settled state (truncated character already abandoned) behaves like the unsettled one on the next byte
pub proof fn lemma_settle_step(m: (State, u8), next: u8)
    ensures strip_step(settle(m, next).0, settle(m, next).1, next) == strip_step(m.0, m.1, next),
{
}

pub proof fn lemma_ms_from_settled(m: (State, u8), r: Seq<u8>, i: int)
    requires r.len() > 0, 0 < i <= r.len(),
    ensures ms(settle(m, r[0]).0, settle(m, r[0]).1, r, i) == ms(m.0, m.1, r, i),
    decreases i
{
    let t = settle(m, r[0]);
    if i == 1 {
        lemma_settle_step(m, r[0]);
        assert(ms(t.0, t.1, r, 0) == t);
        assert(ms(m.0, m.1, r, 0) == m);
    } else {
        lemma_ms_from_settled(m, r, i - 1);
    }
}

pub proof fn lemma_visible_from_settled(m: (State, u8), r: Seq<u8>, i: int)
    requires r.len() > 0, 0 <= i <= r.len(),
    ensures visible_from(settle(m, r[0]).0, settle(m, r[0]).1, r, i) == visible_from(m.0, m.1, r, i),
    decreases r.len() - i
{
    let t = settle(m, r[0]);
    if i < r.len() {
        lemma_visible_from_settled(m, r, i + 1);
        if i == 0 {
            lemma_settle_step(m, r[0]);
        } else {
            lemma_ms_from_settled(m, r, i);
        }
    }
}

/// the visible text of the suffix, computed in place or after cutting the input there
pub proof fn lemma_visible_shift(s0: State, u0: u8, b: Seq<u8>, c: int, i: int)
    requires 0 <= c <= b.len(), 0 <= i <= b.len() - c,
    ensures visible_from(ms(s0, u0, b, c).0, ms(s0, u0, b, c).1, b.subrange(c, b.len() as int), i) == visible_from(s0, u0, b, c + i),
    decreases b.len() - c - i
{
    let r = b.subrange(c, b.len() as int);
    if i < r.len() {
        lemma_visible_shift(s0, u0, b, c, i + 1);
        lemma_ms_shift(s0, u0, b, c, i);
        assert(r[i] == b[c + i]);
    }
}

pub proof fn lemma_visible_skip(s0: State, u0: u8, b: Seq<u8>, i: int, k: int)
    requires 0 <= i <= k <= b.len(), forall|j: int| i <= j < k ==> !kept(s0, u0, b, j),
    ensures visible_from(s0, u0, b, i) == visible_from(s0, u0, b, k),
    decreases k - i
{
    if i < k { lemma_visible_skip(s0, u0, b, i + 1, k); }
}

pub proof fn lemma_visible_take(s0: State, u0: u8, b: Seq<u8>, k: int, n: int)
    requires 0 <= k, 0 <= n, k + n <= b.len(), forall|j: int| k <= j < k + n ==> kept(s0, u0, b, j),
    ensures visible_from(s0, u0, b, k) == b.subrange(k, k + n) + visible_from(s0, u0, b, k + n),
    decreases n
{
    if n == 0 {
        assert(b.subrange(k, k) + visible_from(s0, u0, b, k) =~= visible_from(s0, u0, b, k));
    } else {
        lemma_visible_take(s0, u0, b, k + 1, n - 1);
        assert(seq![b[k]] + (b.subrange(k + 1, k + n) + visible_from(s0, u0, b, k + n)) =~= b.subrange(k, k + n) + visible_from(s0, u0, b, k + n));
    }
}

/// L-fold, one call: what the call returned plus the visible text of what it left (from the
/// state it carried) is the visible text of what it was given
pub proof fn lemma_scan_call(s0: State, u0: u8, b0: Seq<u8>, rest: Seq<u8>, r: Option<Seq<u8>>, fs: State, fu: u8, k: int, n: int)
    requires scan_post(s0, u0, b0, rest, r, fs, fu, k, n),
    ensures
        visible(s0, u0, b0) == (match r { Some(p) => p, None => Seq::<u8>::empty() }) + visible(fs, fu, rest),
        r.is_none() ==> rest.len() == 0,
{
    lemma_visible_skip(s0, u0, b0, 0, k);
    lemma_visible_take(s0, u0, b0, k, n);
    let c = k + n;
    let m = ms(s0, u0, b0, c);
    lemma_visible_shift(s0, u0, b0, c, 0);
    if c < b0.len() {
        assert(rest[0] == b0[c]);
        lemma_visible_from_settled(m, rest, 0);
    }
    if n == 0 {
        assert(Seq::<u8>::empty() + visible(fs, fu, rest) =~= visible(fs, fu, rest));
        assert(b0.subrange(k, k) + visible_from(s0, u0, b0, c) =~= visible_from(s0, u0, b0, c));
    }
}

/// L-fold, chunks: for every cut — inside an escape sequence or inside a character —
/// visible(a ++ b) is visible(a) followed by the visible text of b from the carried state
pub proof fn lemma_chunks(s0: State, u0: u8, a: Seq<u8>, b: Seq<u8>)
    ensures
        visible(s0, u0, a + b) == visible(s0, u0, a) + visible(ms(s0, u0, a, a.len() as int).0, ms(s0, u0, a, a.len() as int).1, b),
{
    let w = a + b;
    let c = a.len() as int;
    assert(w.subrange(0, c) =~= a);
    assert(w.subrange(c, w.len() as int) =~= b);
    lemma_ms_prefix(s0, u0, w, c, c);
    lemma_visible_shift(s0, u0, w, c, 0);
    lemma_visible_prefix(s0, u0, w, c, 0);
}

/// visible text of a prefix, computed on the prefix alone or inside the whole
pub proof fn lemma_visible_prefix(s0: State, u0: u8, w: Seq<u8>, c: int, i: int)
    requires 0 <= i <= c <= w.len(),
    ensures visible_from(s0, u0, w, i) == visible_from(s0, u0, w.subrange(0, c), i) + visible_from(s0, u0, w, c),
    decreases c - i
{
    let a = w.subrange(0, c);
    if i < c {
        lemma_visible_prefix(s0, u0, w, c, i + 1);
        lemma_ms_prefix(s0, u0, w, c, i);
        assert(a[i] == w[i]);
        if kept(s0, u0, w, i) {
            assert(seq![w[i]] + (visible_from(s0, u0, a, i + 1) + visible_from(s0, u0, w, c)) =~= (seq![w[i]] + visible_from(s0, u0, a, i + 1)) + visible_from(s0, u0, w, c));
        }
    } else {
        assert(visible_from(s0, u0, a, i) =~= Seq::<u8>::empty());
        assert(Seq::<u8>::empty() + visible_from(s0, u0, w, c) =~= visible_from(s0, u0, w, c));
    }
}
//@verus-only-end
